#!/usr/bin/env python3
"""Regenerates /verif/MANIFEST.json from the table below (kept valid at all times)."""
import json, os
HERE = os.path.dirname(os.path.dirname(os.path.abspath(__file__)))

LEVEL = ("Bounded symbolic verification: the real scikit-fem functions are executed on z3 terms; every obligation is an SMT "
         "query that must be unsat (or sat for the explicitly existential ones) for ALL values of the symbolic quantities, for "
         "each of the enumerated configurations listed in the evidence. Not a proof: topology/element/integrand are enumerated "
         "within stated bounds. ")
NOTE = ("Trusted: z3 5.1 (sample cross-checked with cvc5 1.4), NumPy object-dtype semantics, the stubs named in the evidence; "
        "real arithmetic stands in for float64 (counterexamples are replayed in float64 before being reported).")

CLAIMED = {
 'C01': dict(text="v^T A u = a(u_h, v_h), b.v = l(v_h), Functional = v^T A u decided as identities in symbolic vertex coordinates and coefficient vectors for every enumerated (mesh class, element, integrand, basis kind) configuration; real _assemble/interpolate/basis constructors executed",
             tech="symbolic execution of assembly + basis construction on symbolic geometry; polynomial/rational identity queries (z3)", ref="4/C01"),
 'C02': dict(text="Functional(x^alpha) assembled on symbolic meshes == quadrature sum of the pulled-back monomial (own map, exact-rational table values) and == closed-form simplex integral under an exact rational lattice rule, for all geometries; mass sum == measure; library tables of every order through assembly within 1e-11 for all polynomials (LRA); invariance under renumbering/refinement",
             tech="symbolic execution of CellBasis/Functional assembly + polynomial identity queries; LRA tolerance queries over symbolic polynomial coefficients", ref="4/C02"),
 'C06': dict(text="patch test with the linear solve cut out: the coefficient vector of a polynomial exact solution with SYMBOLIC coefficients satisfies every condensed and enforced equation assembled by the real model forms on symbolic meshes (Poisson, reaction-diffusion, elasticity with symbolic Lame parameters, all Dirichlet/Neumann splits); projection identity M x == f(interpolate x)",
             tech="symbolic execution of models/assembly/get_dofs/condense/enforce on the SymCSR stand-in + polynomial identity queries", ref="4/C06",
             note="Non-singularity of the constrained matrix and the numerical solver are assumed; expansion is C05."),
 'C14': dict(text="element finders explored path by path with a symbolic query point against a nondeterministic KD-tree stub; per path nlsat proves returned cell contains the point / raising implies outside; probes(x)@y == local expansion at the own inverse image; point_source, interpolator (incl. handle history), quadrature-point agreement; quad/hex float path with symbolic coefficients (LRA)",
             tech="concolic path exploration of element_finder/probes + nlsat validity queries per path", ref="4/C14"),
 'C15': dict(text="explicit histories on shared element/mapping/basis/mesh/solver objects with symbolic call arguments: last result == same call on fresh objects (identity for all argument values), operands unchanged; covers Legendre, Vandermonde and Jacobian caches, lazy members, solver closures, tag dictionaries",
             tech="symbolic execution of call histories + identity queries 'stateful == fresh'", ref="4/C15"),
 'C18': dict(text="restrict/remove/transform/split/extrude on meshes whose symbolic coordinates double as tracers: slot-by-slot coordinate identities, index maps, tag designation by vertex sets, T(p) for symbolic parameters, reflection identities, oriented() positivity per path; joins (m1 + m2, m1 @ m2, remove_duplicate_nodes) of the parts of one symbolic mesh with NumPy's row-unique idiom replaced by its contract on symbolic rows (nominal point ordering; float-level merge effects excluded)",
             tech="symbolic execution of mesh operations with tracer coordinates + identity / inequality queries", ref="4/C18"),
 'C19': dict(text="split/interpolate consistency, coupled matrix blocks == separately assembled component forms (also Form.block), asm over all cell partitions, tolocal/fromlocal/inverse/dot/add of elemental data, for vector and composite elements incl. 3-D edge/facet layouts and reuse histories",
             tech="symbolic execution of split/assembly/COOData plumbing + identity queries", ref="4/C19"),
 'C03': dict(text="jump of the value / normal / tangential trace across every interior facet is identically zero in symbolic geometry, coefficients and facet point, for two-cell patches in ALL vertex numberings / cyclic shifts / rotations; C1, Crouzeix-Raviart, Morley/Hermite functionals; element reuse and post-adaptive meshes",
             tech="symbolic execution of mesh constructors, Dofs, orient, gbasis, InteriorFacetBasis with a symbolic quadrature point; rational identity queries per orientation path", ref="4/C03"),
 'C07': dict(text="soundness (returned DOFs zero => trace zero at a symbolic facet point), minimality (existential), closure against the mesh tables, selector equivalence under symbolic geometry/threshold with per-path solver-proved membership, name filters, histories",
             tech="symbolic execution of get_dofs/FacetBasis/facets_satisfying; identity, existential and path-validity SMT queries", ref="4/C07"),
 'C12': dict(text="uniform refinement with ALL coarse coordinates symbolic: new vertices are solver-proved constant convex combinations; child-in-parent map, conformity, counts, measures (identities / exact weight determinants) and tag propagation for all geometries; tetrahedral diagonal choice explored per path",
             tech="symbolic execution of refined()/_uniform + linear/polynomial identity queries + path exploration", ref="4/C12"),
 'C13': dict(text="adaptive refinement (tri/tet/line) explored path by path over the longest-edge comparisons with symbolic coordinates; per path the C12 obligations + marked cells subdivided + subdomains = descendants; adaptive_theta membership proved per path",
             tech="concolic path exploration (witness/abstraction/nlsat feasibility) of the real refiners + identity queries per path", ref="4/C13"),
 'C04': dict(text="geometric formulation: same global number => same mapped DOF location for all geometries (linear identities), different numbers of one name => different locations for some geometry (existential), locality of assembled entries through the real COO bookkeeping with fresh symbols per local entry; gap-free range / sharing pattern / table agreement read off concretely",
             tech="symbolic execution of Dofs/CellBasis on symbolic geometry; linear identity + existential SMT queries", ref="4/C04"),
 'C09': dict(text="every exported element: delivered derivative fields equal the symbolic derivative (astdiff) of the delivered value at a symbolic reference point; chain rule through gbasis on a cell with symbolic vertices; partition of unity, nodality, flux/circulation and point-value duality",
             tech="symbolic execution of lbasis/gbasis + AST differentiation oracle; polynomial/rational identity queries", ref="4/C09"),
 'C10': dict(text="F == own map, DF == dF/dX, invDF DF == I, detDF == det, invF o F == id (affine; Newton symbolic on affine geometry, numeric elsewhere), facet map/Gram determinant, FacetBasis normals unit/orthogonal/outward, affine == isoparametric; all point layouts and cell subsets on small meshes with symbolic vertices",
             tech="symbolic execution of the mapping classes and FacetBasis geometry; identity/inequality SMT queries (nlsat for outwardness)", ref="4/C10"),
 'C16': dict(text="trace extraction from the real _assemble (recording Thread, tracing output block), symbolic kernel values; every write equals the serial value (identity), no schedule lets a write follow the read (LIA over event positions), exactly-once and inputs-unchanged from the trace; real-thread replay",
             tech="trace extraction + SMT model of all schedules (linear integer arithmetic over event positions) + identity queries", ref="4/C16"),
 'C05': dict(text="enforce/penalize/condense/solve run on matrices whose stored entries, rhs, prescribed values and solver output are symbolic; row/rhs identities and the implication 'condensed solution => original equations on kept rows' decided for all values, over all enumerated sparsity patterns n<=3 (n=4 sampled) and all index sets",
             tech="symbolic execution of skfem.utils on a differentially validated sparse stub + z3 identities/implications", ref="4/C05"),
 'C20': dict(text="every integrand helper (NumPy and JAX source) equals its index-sum definition for all tensor entries (2x2, 3x3, trailing axes), and the two variants agree; NonlinearForm._assemble at a symbolic linearisation point with jax.linearize replaced by a forward-mode stand-in (Jacobian == hand-linearised form, rhs == -residual); JAX's own differentiation is outside the claim",
             tech="symbolic execution of helper functions on z3 terms + polynomial identity queries", ref="4/C20"),
 'C08': dict(text="every (reference cell, order) rule in the stated range integrates ALL polynomials of its advertised degree within 1e-12 (LRA over symbolic coefficients), weights/nodes read off concretely; declined orders raise",
             tech="SMT (z3 LRA) over symbolic polynomial coefficients on the real quadrature tables", ref="4/C08"),
}
NA = {
 'C11': "whole content is integer-table manipulation inside NumPy C kernels (np.sort/np.unique/fancy indexing); no continuous quantity for a solver to quantify over, and lifting those kernels to SMT would no longer execute the real code (DESIGN 6)",
 'C17': "code path runs through meshio readers/writers, file I/O, np.savez, JSON text and float formatting; symbolic values cannot pass a serialiser (DESIGN 6)",
}
NA['C11'] = NA['C11']
PENDING = "check not built yet in this round (planned, see DESIGN.md section 4); not claimed until its command exists"

def main():
    props = [json.loads(l) for l in open(os.path.join(HERE, 'properties.jsonl'))]
    checks, na = [], []
    for p in props:
        i = p['id']
        if i in CLAIMED:
            c = CLAIMED[i]
            checks.append(dict(
                property_id=i, quick_cmd="./run_check.sh %s quick" % i, thorough_cmd="./run_check.sh %s thorough" % i,
                evidence_file="evidence/%s.json" % i, replay_cmd_template="./run_check.sh %s --replay {path}" % i,
                engine="symexec", level_claimed=dict(category="other", text=LEVEL + "Here: " + c['text'], design_ref="DESIGN.md " + c['ref']),
                level_note=NOTE + (" " + c['note'] if c.get('note') else ""), technique=c['tech']))
        else:
            na.append(dict(property_id=i, reason=NA.get(i, PENDING)))
    m = dict(version=1, setup_cmd="./setup.sh",
             hooks=dict(guard="SKFEM_VERIF", enable="no source hook is needed: checks import /repo's working tree (PYTHONPATH=/repo) and replace the `np` attribute of the imported skfem modules at run time; SKFEM_VERIF=1 is exported by run_check.sh but read by nothing in /repo",
                        baseline_off_cmd="cd /repo && /venv/bin/python -m pytest -ra -q -p no:cacheprovider --timeout=900 --continue-on-collection-errors",
                        source_commits=[], add_only=True),
             engines=[dict(name="symexec", path="engine/", serves_properties=sorted(CLAIMED),
                           kind_free_text="symbolic execution of the real Python/NumPy source on z3-backed scalars in object arrays, path explorer, SMT portfolio (z3 default / nlsat, cvc5 second opinion), float64 replay")],
             checks=checks, not_applicable=na,
             notes="Technique family: solver-based checking of the real code. See DESIGN.md. known_findings.json lists fixed/known defects.")
    json.dump(m, open(os.path.join(HERE, 'MANIFEST.json'), 'w'), indent=1)
    print('claimed', len(checks), 'not_applicable', len(na))

if __name__ == '__main__':
    main()
