"""Symbolic derivative of a z3 real-arithmetic term (harness-side oracle, DESIGN 2.7): the SOLVER decides equality
between this and what the library delivers."""
import z3
from .sym import Sym, tosym

_Z = z3.RealVal(0)
_O = z3.RealVal(1)


def _is0(e):
    return z3.is_rational_value(e) and e.numerator_as_long() == 0


def diff(e, x, cache=None):
    if cache is None:
        cache = {}
    stack = [e]
    xid = x.get_id()
    while stack:
        t = stack[-1]
        k = t.get_id()
        if k in cache:
            stack.pop()
            continue
        if z3.is_rational_value(t) or z3.is_int_value(t) or z3.is_algebraic_value(t):
            cache[k] = _Z
            stack.pop()
            continue
        if z3.is_const(t):
            cache[k] = _O if k == xid else _Z
            stack.pop()
            continue
        ch = t.children()
        pending = [c for c in ch if c.get_id() not in cache]
        if pending:
            stack.extend(pending)
            continue
        stack.pop()
        d = [cache[c.get_id()] for c in ch]
        kind = t.decl().kind()
        if kind == z3.Z3_OP_ADD:
            nz = [v for v in d if not _is0(v)]
            cache[k] = z3.Sum(nz) if len(nz) > 1 else (nz[0] if nz else _Z)
        elif kind == z3.Z3_OP_SUB:
            r = d[0]
            for v in d[1:]:
                if not _is0(v):
                    r = r - v
            cache[k] = r
        elif kind == z3.Z3_OP_UMINUS:
            cache[k] = _Z if _is0(d[0]) else -d[0]
        elif kind == z3.Z3_OP_MUL:
            terms = []
            for i in range(len(ch)):
                if _is0(d[i]):
                    continue
                tt = d[i]
                for j in range(len(ch)):
                    if j != i:
                        tt = tt * ch[j]
                terms.append(tt)
            cache[k] = z3.Sum(terms) if len(terms) > 1 else (terms[0] if terms else _Z)
        elif kind == z3.Z3_OP_DIV:
            a, b = ch
            if _is0(d[1]):
                cache[k] = _Z if _is0(d[0]) else d[0] / b
            else:
                cache[k] = (d[0] * b - a * d[1]) / (b * b)
        elif kind == z3.Z3_OP_POWER:
            a, n = ch
            if not z3.is_rational_value(n):
                raise NotImplementedError('symbolic exponent')
            cache[k] = _Z if _is0(d[0]) else n * (a ** (n - 1)) * d[0]
        elif kind == z3.Z3_OP_ITE:
            cache[k] = z3.If(ch[0], d[1], d[2])
        elif kind == z3.Z3_OP_TO_REAL:
            cache[k] = _Z
        else:
            raise NotImplementedError(str(t.decl()))
    return cache[e.get_id()]


def dsym(s, x, cache=None):
    """d s / d x for Syms (x a symbolic variable Sym); result in shared-term form."""
    s = tosym(s)
    if s.c is not None:
        return Sym(c=0 * s.c)
    return Sym(diff(s.a, x.a, cache))
