"""Symbolic scalar for running scikit-fem's NumPy code on solver terms.

A ``Sym`` lives in ``dtype=object`` arrays.  It carries two representations (DESIGN 2.1):
  a : the term exactly as the library built it, divisions kept as z3 ``/``  (form A)
  n/d: numerator polynomial over a multiset of denominator atoms             (form B)
Comparisons return ``SymBool``; ``bool()`` of it asks the current path explorer (``Ctx.cur``).
"""
import fractions
import numpy as np
import z3

Fr = fractions.Fraction
ONE = z3.RealVal(1)
ZERO = z3.RealVal(0)


class Ctx:
    cur = None          # current explorer (engine.explorer.Explorer)
    snap = True         # float literal snapping policy (DESIGN 2.1)


def const(x):
    """Lift a Python/NumPy number to an exact z3 rational (None if not a number)."""
    if isinstance(x, (bool, np.bool_)):
        return z3.RealVal(int(x))
    if isinstance(x, (int, np.integer)):
        return z3.RealVal(int(x))
    if isinstance(x, (float, np.floating)):
        x = float(x)
        fr = Fr(x)
        if Ctx.snap:
            sn = fr.limit_denominator(10 ** 4)
            if sn == fr or abs(float(sn) - x) <= 8 * np.spacing(abs(x)):
                fr = sn
        return z3.RealVal(fr)
    if isinstance(x, Fr):
        return z3.RealVal(x)
    return None


def isnum(e):
    return z3.is_rational_value(e)


def val(e):
    return Fr(e.numerator_as_long(), e.denominator_as_long())


def _fr(x):
    """Exact rational value of a Python/NumPy number under the float policy (None if not a number)."""
    if isinstance(x, (bool, np.bool_, int, np.integer)):
        return Fr(int(x))
    if isinstance(x, (float, np.floating)):
        x = float(x)
        fr = Fr(x)
        if Ctx.snap:
            sn = fr.limit_denominator(10 ** 4)
            if sn == fr or abs(float(sn) - x) <= 8 * np.spacing(abs(x)):
                fr = sn
        return fr
    if isinstance(x, Fr):
        return x
    return None


_F0, _F1 = Fr(0), Fr(1)


class Sym:
    """c: exact constant (Fraction) or None;  _a: z3 term (lazy for constants);  _n/d: rational normal form."""
    __slots__ = ('_a', '_n', 'd', 'c')

    def __init__(self, a=None, n=None, d=None, c=None):
        if c is None and a is not None and z3.is_rational_value(a):
            c = Fr(a.numerator_as_long(), a.denominator_as_long())
        self._a = a
        self._n = n
        self.d = d or {}
        self.c = c

    @property
    def a(self):
        if self._a is None:
            self._a = z3.RealVal(self.c)
        return self._a

    @property
    def n(self):
        return self._n if self._n is not None else self.a

    _nan = [0]

    @staticmethod
    def lift(x):
        if isinstance(x, Sym):
            return x
        if isinstance(x, (float, np.floating)) and x != x:
            # NaN (e.g. undefined DOF locations): an arbitrary real - a sound over-approximation of "garbage"
            Sym._nan[0] += 1
            return Sym(z3.Real('nan!%d' % Sym._nan[0]))
        c = _fr(x)
        return None if c is None else Sym(c=c)

    @staticmethod
    def var(name):
        return Sym(z3.Real(name))

    def is_const(self):
        return self.c is not None

    def value(self):
        return self.c

    def den(self):
        r = ONE
        for a, k in self.d.values():
            for _ in range(k):
                r = r * a
        return r

    @staticmethod
    def _scale(n, have, want):
        for i, (a, k) in want.items():
            for _ in range(k - have.get(i, (a, 0))[1]):
                n = n * a
        return n

    def __add__(s, o):
        if not isinstance(o, Sym):
            o = Sym.lift(o)
            if o is None:
                return NotImplemented
        sc, oc = s.c, o.c
        if sc is not None:
            if oc is not None:
                return Sym(c=sc + oc)
            if sc == 0:
                return o
        elif oc is not None and oc == 0:
            return s
        if not s.d and not o.d:
            return Sym(s.a + o.a, s.n + o.n)
        l = dict(s.d)
        for i, (a, k) in o.d.items():
            if i not in l or l[i][1] < k:
                l[i] = (a, k)
        return Sym(s.a + o.a, Sym._scale(s.n, s.d, l) + Sym._scale(o.n, o.d, l), l)

    __radd__ = __add__

    def __neg__(s):
        if s.c is not None:
            return Sym(c=-s.c)
        return Sym(-s.a, -s.n, s.d)

    def __pos__(s):
        return s

    def __sub__(s, o):
        if not isinstance(o, Sym):
            o = Sym.lift(o)
            if o is None:
                return NotImplemented
        return s + (-o)

    def __rsub__(s, o):
        o = Sym.lift(o)
        return NotImplemented if o is None else o + (-s)

    def __mul__(s, o):
        if not isinstance(o, Sym):
            o = Sym.lift(o)
            if o is None:
                return NotImplemented
        sc, oc = s.c, o.c
        if sc is not None:
            if oc is not None:
                return Sym(c=sc * oc)
            if sc == 0:
                return Sym(c=_F0)
            if sc == 1:
                return o
        elif oc is not None:
            if oc == 0:
                return Sym(c=_F0)
            if oc == 1:
                return s
        if not s.d and not o.d:
            return Sym(s.a * o.a, s.n * o.n)
        l = dict(s.d)
        for i, (a, k) in o.d.items():
            l[i] = (a, l.get(i, (a, 0))[1] + k)
        return Sym(s.a * o.a, s.n * o.n, l)

    __rmul__ = __mul__

    def inv(s):
        if s.c is not None:
            return Sym(c=1 / s.c)
        if Ctx.cur is not None:
            Ctx.cur.note_den(s)
        return Sym(ONE / s.a, s.den(), {s.n.get_id(): (s.n, 1)})

    def __truediv__(s, o):
        if not isinstance(o, Sym):
            o = Sym.lift(o)
            if o is None:
                return NotImplemented
        if o.c is not None:
            return s * Sym(c=1 / o.c)
        return s * o.inv()

    def __rtruediv__(s, o):
        o = Sym.lift(o)
        return NotImplemented if o is None else o * s.inv()

    def __pow__(s, k):
        if isinstance(k, Sym) and k.c is not None:
            k = float(k.c)
        if isinstance(k, (float, np.floating)) and float(k).is_integer():
            k = int(k)
        if isinstance(k, (int, np.integer)):
            if s.c is not None:
                return Sym(c=s.c ** int(k))
            if k < 0:
                return (s ** (-int(k))).inv()
            r = Sym(c=_F1)
            for _ in range(int(k)):
                r = r * s
            return r
        if isinstance(k, (float, np.floating)):
            if k == 0.5:
                return s.sqrt()
            if abs(k - 1 / 3) < 1e-15:
                return root(s, 3)
        return NotImplemented

    def __rpow__(s, b):
        if s.c is not None and s.c.denominator == 1:
            return Sym.lift(b) ** int(s.c)
        return NotImplemented

    def sqrt(s):
        return root(s, 2)

    def __abs__(s):
        if s.c is not None:
            return Sym(c=abs(s.c))
        return s if bool(s >= 0) else -s

    def __round__(s, nd=None):
        return s

    def __float__(s):
        if s.c is not None:
            return float(s.c)
        raise TypeError('float() of a symbolic value')

    def __int__(s):
        if s.c is not None and s.c.denominator == 1:
            return int(s.c)
        raise TypeError('int() of a symbolic value')

    def _cmp(s, o, op):
        if not isinstance(o, Sym):
            o = Sym.lift(o)
            if o is None:
                return NotImplemented
        if s.c is not None and o.c is not None:
            return bool(op(s.c, o.c))
        cur = Ctx.cur
        if cur is not None and cur.rad:
            ra, rb = cur.rad.get(s.a.get_id()), cur.rad.get(o.a.get_id())
            if ra is not None and rb is not None and ra[1] == rb[1]:
                # monotonicity of the k-th root on [0, oo): compare radicands
                return SymBool(op(ra[0].a, rb[0].a))
        return SymBool(op(s.a, o.a))

    def __lt__(s, o):
        return s._cmp(o, lambda a, b: a < b)

    def __le__(s, o):
        return s._cmp(o, lambda a, b: a <= b)

    def __gt__(s, o):
        return s._cmp(o, lambda a, b: a > b)

    def __ge__(s, o):
        return s._cmp(o, lambda a, b: a >= b)

    def __eq__(s, o):
        return s._cmp(o, lambda a, b: a == b)

    def __ne__(s, o):
        return s._cmp(o, lambda a, b: a != b)

    __hash__ = None

    def astype(s, dtype=None, **kw):
        # NumPy scalar API (np.float64.astype): a real stays a real
        return s

    # further NumPy-scalar API that real-valued library code may touch on an array entry
    def item(s, *a):
        return s

    def copy(s, *a, **kw):
        return s

    def conj(s):
        return s

    conjugate = conj
    real = property(lambda s: s)
    imag = property(lambda s: Sym(c=Fr(0)))

    def __bool__(s):
        # truthiness as for a Python/NumPy number (`if x:`, ndarray.any()/all() on object arrays): x != 0, a branch when symbolic
        if s.c is not None:
            return s.c != 0
        return bool(s != 0)

    def __repr__(s):
        if s.c is not None:
            return 'Sym(%s)' % s.c
        t = str(z3.simplify(s.a))
        return 'Sym(%s)' % (t if len(t) < 80 else t[:77] + '...')

    # numpy calls these on object arrays
    def conjugate(s):
        return s

    conj = conjugate

    @property
    def real(s):
        return s

    @property
    def imag(s):
        return Sym(c=_F0)


def _exact_root(v, k):
    """Exact k-th root of a non-negative Fraction if it is rational, else None."""
    import math
    if v < 0:
        return None

    def iroot(n):
        if n < 2:
            return n
        if k == 2:
            r = math.isqrt(n)
        else:
            # integer Newton iteration for floor(n ** (1/k))
            r = 1 << ((n.bit_length() + k - 1) // k)
            while True:
                y = ((k - 1) * r + n // r ** (k - 1)) // k
                if y >= r:
                    break
                r = y
        return r if r ** k == n else None
    a, b = iroot(v.numerator), iroot(v.denominator)
    if a is None or b is None:
        return None
    return Fr(a, b)


def root(s, k):
    if s.c is not None:
        r = _exact_root(s.c, k)
        if r is not None:
            return Sym(c=r)
    if Ctx.cur is None:
        raise RuntimeError('root of a symbolic value outside an explorer')
    return Ctx.cur.root(s, k)


class SymBool:
    __slots__ = ('e',)

    def __init__(self, e):
        self.e = e

    def __bool__(self):
        if Ctx.cur is None:
            raise RuntimeError('branch on a symbolic condition outside an explorer')
        return Ctx.cur.decide(self.e)

    # logical combinations decide eagerly (only the library's own branches create paths)
    def __and__(self, o):
        return bool(self) and bool(o)

    __rand__ = __and__
    __mul__ = __and__
    __rmul__ = __and__

    def __or__(self, o):
        return bool(self) or bool(o)

    __ror__ = __or__
    __add__ = __or__
    __radd__ = __or__

    def __invert__(self):
        return not bool(self)

    def __repr__(self):
        return 'SymBool(%s)' % self.e


def symarr(prefix, shape):
    """Array of fresh symbolic reals named prefix_i_j..."""
    if isinstance(shape, int):
        shape = (shape,)
    a = np.empty(shape, dtype=object)
    for idx in np.ndindex(*shape):
        a[idx] = Sym(z3.Real(prefix + ''.join('_%d' % i for i in idx)))
    return a


def const_arr(x):
    x = np.asarray(x)
    a = np.empty(x.shape, dtype=object)
    for idx in np.ndindex(*x.shape):
        v = x[idx]
        a[idx] = v if isinstance(v, Sym) else Sym.lift(v)
    return a


def is_sym_array(x):
    return isinstance(x, np.ndarray) and x.dtype == object


def tosym(x):
    if isinstance(x, np.ndarray) and x.ndim == 0:
        x = x[()]
    s = Sym.lift(x)
    if s is None:
        raise TypeError('cannot lift %r' % (x,))
    return s


def flat_syms(x):
    """Iterate (index, Sym) over an array/scalar."""
    if isinstance(x, np.ndarray):
        for idx in np.ndindex(*x.shape):
            yield idx, tosym(x[idx])
    else:
        yield (), tosym(x)


import numbers as _numbers
_numbers.Number.register(Sym)
