#!/bin/bash
# usage: tools/run_all.sh [quick|thorough]   runs every registered check sequentially, prints one summary line each
TIER="${1:-quick}"
cd "$(dirname "$0")/.."
for id in C01 C02 C03 C04 C05 C06 C07 C08 C09 C10 C12 C13 C14 C15 C16 C18 C19 C20; do
  s=$(date +%s)
  ./run_check.sh $id $TIER > /tmp/runall_$id.log 2>&1; rc=$?
  echo "$id rc=$rc $(( $(date +%s)-s ))s  $(grep -E "^$id " /tmp/runall_$id.log | tail -1 | cut -c1-230)"
  grep -E "^VIOLATION|^HARNESS|^KNOWN" /tmp/runall_$id.log | head -3 | cut -c1-200
done
