"""C10 - reference maps, Jacobians, facet maps and normals are mutually consistent.

Symbolic: reference points X, facet parameters s, all vertex coordinates (affine and quadrilateral cells; hexahedra one free vertex
or numeric), mid-side nodes of second-order meshes (thorough).
Real code: MappingAffine.*, MappingIsoparametric.* (incl. the Newton inverse where it terminates exactly), refdom tables,
FacetBasis geometry (normals through invF o G).
Oracles: own affine/multilinear map from refdom.p (engine.zoo.ref_weights), engine.astdiff, Leibniz determinant.
"""
import sys
import warnings

import numpy as np

from engine import harness
from engine.harness import Skip
from engine.astdiff import dsym
from engine.sym import Sym, tosym
from engine.symnp import det_obj
from engine.zoo import make_mesh, ref_weights, simplex_det


def get_mapping(m, kind, tind_ctor=None):
    import importlib
    if kind == 'affine':
        MA = importlib.import_module('skfem.mapping.mapping_affine').MappingAffine
        return MA(m) if tind_ctor is None else MA(m, tind=tind_ctor)
    MI = importlib.import_module('skfem.mapping.mapping_isoparametric').MappingIsoparametric
    return MI(m, m.elem(), m.bndelem)


def own_F(m, cell, Xq):
    """Own map of cell `cell` at a reference point (list of coordinates)."""
    nn = m.refdom.nnodes
    lam = ref_weights(m.refdom, Xq)
    P = m.doflocs
    t = np.asarray(m.t)
    return [sum(lam[a] * P[d, t[a, cell]] for a in range(nn)) for d in range(P.shape[0])]


def points(h, dim, layout, ncell, npts=2, name='X'):
    nom = np.array([[0.21875, 0.40625, 0.3125], [0.28125, 0.15625, 0.1875], [0.34375, 0.09375, 0.25]])[:dim, :npts]
    if layout == 'shared':
        return h.sym(name, (dim, npts), nominal=nom)
    nomc = np.stack([nom * (1 - 0.1 * k) + 0.02 * k for k in range(ncell)], axis=1)
    return h.sym(name, (dim, ncell, npts), nominal=nomc)


def col(X, layout, k, q):
    return [X[d, q] if layout == 'shared' else X[d, k, q] for d in range(X.shape[0])]


def ddX(h, val, X, layout, k, q, j):
    """d val / d X_j at (cell slot k, point q) - symbolic mode only."""
    var = X[j, q] if layout == 'shared' else X[j, k, q]
    return dsym(val, var, {})


def cellmap_config(h, mesh, mapkind, layout, tind, free=None, newton=False, mesh_cls=None, affine_tind_ctor=False):
    with warnings.catch_warnings():
        warnings.simplefilter('ignore')
        m = make_mesh(h, mesh, free=free, cls=mesh_cls)
        nt = m.t.shape[1]
        dim = m.p.shape[0]
        ti = None if tind is None else np.array(tind, dtype=np.int64)
        mp = get_mapping(m, mapkind, tind_ctor=ti if affine_tind_ctor else None)
        cells = list(range(nt)) if ti is None else list(ti)
        X = points(h, dim, layout, len(cells))
        npts = X.shape[-1]
        if newton and h.sym_mode:
            # the Newton inverse clips to the closed reference cell: points range over its interior
            for idx in np.ndindex(*X.shape):
                h.assume(h.And(X[idx] > 0, X[idx] < 1))
            if m.refdom.__name__ in ('RefTri', 'RefTet'):
                for q in range(npts):
                    h.assume(sum(X[d, q] for d in range(dim)) < 1)
        h.sample(dict(mesh=mesh, mapping=mapkind, points=layout, tind=tind, cells=int(nt), memory_optimised=affine_tind_ctor))
        if h.sym_mode and m.refdom.__name__ in ('RefQuad', 'RefHex', 'RefWedge'):
            # precondition: the map is non-degenerate at the evaluated points
            for k, c in enumerate(cells):
                for q in range(npts):
                    Xq = col(X, layout, k, q)
                    own = own_F(m, c, Xq)
                    Jo = np.empty((dim, dim), dtype=object)
                    for b in range(dim):
                        for a in range(dim):
                            Jo[a, b] = dsym(tosym(own[a]), Xq[b], {})
                    dd = tosym(det_obj(Jo))
                    if dd.c is None:
                        h.assume(dd != 0)
        Fx = mp.F(X, tind=ti)
        h.concrete('F shape', np.shape(Fx) == (dim, len(cells), npts), str(np.shape(Fx)))
        DF = mp.DF(X, tind=ti)
        iDF = mp.invDF(X, tind=ti)
        dDF = mp.detDF(X, tind=ti)
        h.concrete('DF/invDF/detDF shapes', np.shape(DF) == (dim, dim, len(cells), npts) and np.shape(iDF) == np.shape(DF)
                   and np.shape(dDF) == (len(cells), npts), '%s %s %s' % (np.shape(DF), np.shape(iDF), np.shape(dDF)))
        for k, c in enumerate(cells):
            for q in range(npts):
                Xq = col(X, layout, k, q)
                own = own_F(m, c, Xq)
                for d in range(dim):
                    h.zero('F[%d] cell %d pt %d == own map' % (d, c, q), Fx[d, k, q] - own[d])
                J = np.array([[DF[a, b, k, q] for b in range(dim)] for a in range(dim)], dtype=object if h.sym_mode else float)
                if h.sym_mode:
                    for a in range(dim):
                        for b in range(dim):
                            h.zero('DF[%d,%d] cell %d pt %d == dF/dX' % (a, b, c, q), J[a, b] - ddX(h, tosym(Fx[a, k, q]), X, layout, k, q, b))
                else:
                    eps = 1e-6
                    for b in range(dim):
                        Xp, Xm = np.array(X, dtype=float), np.array(X, dtype=float)
                        if layout == 'shared':
                            Xp[b, q] += eps
                            Xm[b, q] -= eps
                        else:
                            Xp[b, k, q] += eps
                            Xm[b, k, q] -= eps
                        fd = (np.asarray(mp.F(Xp, tind=ti))[:, k, q] - np.asarray(mp.F(Xm, tind=ti))[:, k, q]) / (2 * eps)
                        for a in range(dim):
                            h.zero('DF[%d,%d] cell %d pt %d == dF/dX' % (a, b, c, q), J[a, b] - fd[a], scale=1e4)
                h.zero('detDF cell %d pt %d == det(DF)' % (c, q), dDF[k, q] - det_obj(J))
                for a in range(dim):
                    for b in range(dim):
                        h.zero('invDF DF [%d,%d] cell %d pt %d' % (a, b, c, q),
                               sum(iDF[a, e_, k, q] * J[e_, b] for e_ in range(dim)) - (1 if a == b else 0))
        # inverse map
        if mapkind == 'affine' or newton:
            x3 = Fx if np.ndim(Fx) == 3 else None
            Y = mp.invF(Fx, tind=ti)
            h.concrete('invF shape', np.shape(Y) == (dim, len(cells), npts), str(np.shape(Y)))
            for k, c in enumerate(cells):
                for q in range(npts):
                    Xq = col(X, layout, k, q)
                    for d in range(dim):
                        h.zero('invF(F(X))[%d] cell %d pt %d == X' % (d, c, q), Y[d, k, q] - Xq[d], scale=1e3 if newton else 1.0)
            if mapkind == 'affine':
                x = h.sym('x', (dim, len(cells), npts), nominal=np.asarray(np.zeros((dim, len(cells), npts)) + 0.3))
                Fy = mp.F(mp.invF(x, tind=ti), tind=ti)
                for idx in np.ndindex(*np.shape(x)):
                    h.zero('F(invF(x))%s == x' % list(idx), Fy[idx] - x[idx])


def newton_numeric_config(h, mesh, tind, layout='shared', mesh_cls=None):
    """General quadrilaterals / hexahedra / mixed affine+distorted batches: the Newton inverse converges only in the limit, so
    geometry and points are numeric and |invF(F(X)) - X| <= 1e-9 is read off (concrete; one trivial solver obligation)."""
    with warnings.catch_warnings():
        warnings.simplefilter('ignore')
        m = make_mesh(h, mesh, free='none', cls=mesh_cls)
        dim = m.p.shape[0]
        ti = None if tind is None else np.array(tind, dtype=np.int64)
        mp = get_mapping(m, 'iso')
        cells = list(range(m.t.shape[1])) if ti is None else list(ti)
        X = h.const(np.array([[0.21875, 0.40625, 0.6875], [0.28125, 0.15625, 0.8125], [0.34375, 0.09375, 0.25]])[:dim])
        if layout != 'shared':
            X = np.stack([X for _ in cells], axis=1)
        Fx = mp.F(X, tind=ti)
        Y = mp.invF(Fx, tind=ti)
        t_ = h.sym('t', ())
        h.zero('trivial', t_ - t_)
        err = 0.0
        for k in range(len(cells)):
            for q in range(X.shape[-1]):
                for d in range(dim):
                    xq = X[d, q] if layout == 'shared' else X[d, k, q]
                    err = max(err, abs(float(Y[d, k, q]) - float(xq)))
        h.concrete('|invF(F(X)) - X| <= 1e-9 on every cell of the batch', err <= 1e-9, 'max error %.3e' % err)
        h.sample(dict(mesh=mesh, newton='numeric', tind=tind, max_error=err))


def bweights(brefdom, s):
    name = brefdom.__name__
    if name == 'RefPoint':
        return [1]
    return ref_weights(brefdom, s)


def facet_config(h, mesh, mapkind, free=None, side=0, find=None, elem=None, mesh_cls=None, divergence=False, numeric_s=False,
                 outward=True):
    import skfem as S
    from skfem.helpers import dot

    def zero(key, val, **kw):
        """identity obligation; on fully numeric input (Newton inverse run in float64, accurate to 1e-12 only) a 1e-9 tolerance
        is read off instead."""
        if numeric_s and h.sym_mode:
            v = tosym(val)
            if v.c is not None:
                return h.concrete(key + ' (numeric, 1e-9)', abs(float(v.c)) <= 1e-9, '%.3e' % abs(float(v.c)))
            return h.zero(key, val, approx=([], 1e-9), **kw)      # irrational normalisation: root atoms, tolerance query
        return h.zero(key, val, **kw)
    with warnings.catch_warnings():
        warnings.simplefilter('ignore')
        m = make_mesh(h, mesh, free=free, cls=mesh_cls)
        dim = m.p.shape[0]
        mp = get_mapping(m, mapkind)
        P = m.doflocs
        facets = np.asarray(m.facets)
        f2t, t2f, t = np.asarray(m.f2t), np.asarray(m.t2f), np.asarray(m.t)
        allf = np.arange(facets.shape[1])
        if find is None:
            fi = allf if side == 0 else np.nonzero(f2t[1] != -1)[0]
        else:
            fi = np.array(find, dtype=np.int64)
        bdim = dim - 1
        nq = 1
        if bdim == 0:
            s = np.zeros((0, 1))
        elif numeric_s:
            s = h.const(np.array([[0.3125], [0.21875]])[:bdim])
            t_ = h.sym('t', ())
            h.zero('trivial', t_ - t_)
        else:
            s = h.sym('s', (bdim, nq), nominal=np.array([[0.3125], [0.21875]])[:bdim])
            if h.sym_mode:
                # the parameter ranges over the open reference facet
                for j in range(bdim):
                    h.assume(h.And(s[j, 0] > 0, s[j, 0] < 1))
                if m.brefdom.__name__ == 'RefTri':
                    h.assume(s[0, 0] + s[1, 0] < 1)
        W = h.const(np.ones(nq))
        h.sample(dict(mesh=mesh, mapping=mapkind, facets=[int(x) for x in fi], side=side))
        nfv = m.brefdom.nnodes if bdim > 0 else 1
        # ---- facet map G(s) == boundary interpolation of the facet's vertices; coherence of facets/t2f/f2t ------------------
        def tangents(f):
            """d(own facet map)/ds_j: the own map is affine in each s_j, so the derivative is own(s_j=1) - own(s_j=0)."""
            out = []
            for j in range(bdim):
                s1 = [s[i, 0] if i != j else 1 for i in range(bdim)]
                s0 = [s[i, 0] if i != j else 0 for i in range(bdim)]
                l1, l0 = bweights(m.brefdom, s1), bweights(m.brefdom, s0)
                out.append([sum((l1[a] - l0[a]) * P[d, facets[a, f]] for a in range(nfv)) for d in range(dim)])
            return out
        Gx = mp.G(s, find=fi.astype(np.int32))
        dG = mp.detDG(s, find=fi.astype(np.int32))
        for k, f in enumerate(fi):
            lam = bweights(m.brefdom, [s[j, 0] for j in range(bdim)])
            own = [sum(lam[a] * P[d, facets[a, f]] for a in range(nfv)) for d in range(dim)]
            for d in range(dim):
                zero('G[%d] facet %d == interpolation of its vertices' % (d, f), Gx[d, k, 0] - own[d])
            for sd in (0, 1):
                K = f2t[sd, f]
                if K < 0:
                    continue
                loc = np.nonzero(t2f[:, K] == f)[0]
                ok = len(loc) == 1
                if ok:
                    lf = list(dict.fromkeys(m.refdom.facets[int(loc[0])])) if dim > 1 else [int(loc[0])]
                    ok = set(t[lf, K].tolist()) == set(facets[:nfv, f].tolist())
                h.concrete('facet %d is local facet of its neighbour %d spanned by the tabulated local vertices' % (f, K), ok)
            # surface factor: detDG^2 == Gram determinant of dG/ds
            if bdim > 0:
                T = tangents(f)
                gram = np.array([[sum(T[a][d] * T[b][d] for d in range(dim)) for b in range(bdim)] for a in range(bdim)],
                                dtype=object if h.sym_mode else float)
                zero('detDG^2 facet %d == Gram determinant' % f, dG[k, 0] * dG[k, 0] - det_obj(gram), scale=1.0 if h.sym_mode else 1e4)
            else:
                zero('detDG point facet %d == 1' % f, dG[k, 0] * dG[k, 0] - 1)
        # ---- normals through the real FacetBasis (invF o G) ---------------------------------------------------------------------
        e = m.elem() if elem is None else elem
        fb = S.FacetBasis(m, e, mapping=mp, quadrature=(s, W), facets=fi.astype(np.int32), side=side)
        n = fb.normals.value
        h.concrete('normals shape', np.shape(n) == (dim, len(fi), nq), str(np.shape(n)))
        Gq = fb.global_coordinates().value
        for k, f in enumerate(fi):
            nn = [n[d, k, 0] for d in range(dim)]
            zero('|n|^2 facet %d == 1' % f, sum(x * x for x in nn) - 1)
            for d in range(dim):
                zero('x (global_coordinates) facet %d [%d] == G(s)' % (f, d), Gq[d, k, 0] - Gx[d, k, 0])
            if bdim > 0:
                lam = bweights(m.brefdom, [s[j, 0] for j in range(bdim)])
                own = [sum(lam[a] * P[d, facets[a, f]] for a in range(nfv)) for d in range(dim)]
                TT = tangents(f)
                for j in range(bdim):
                    Tj = TT[j]
                    zero('n . tangent_%d facet %d == 0' % (j, f), sum(nn[d] * Tj[d] for d in range(dim)))
            # outward from the cell the normal is taken from (f2t[0]): towards the side away from an opposite vertex
            K = f2t[0, f]
            opp = [v for v in t[:m.refdom.nnodes, K] if v not in set(facets[:nfv, f].tolist())]
            xf = [Gx[d, k, 0] for d in range(dim)]
            if not outward:
                pass
            elif m.refdom.__name__ in ('RefTri', 'RefTet', 'RefLine'):
                for v in opp:
                    h.valid('n points out of cell %d at facet %d (vertex %d)' % (K, f, v),
                            sum(nn[d] * (xf[d] - P[d, v]) for d in range(dim)) > 0, kinds=('nlsat', 'default'))
            else:
                cen = [sum(P[d, v] for v in t[:m.refdom.nnodes, K]) / float(m.refdom.nnodes) for d in range(dim)]
                if free is None or (isinstance(free, str) and free == 'none'):
                    h.valid('n points out of cell %d at facet %d (centroid)' % (K, f),
                            sum(nn[d] * (xf[d] - cen[d]) for d in range(dim)) > 0, kinds=('nlsat', 'default'))
        # ---- divergence theorem on a one-cell mesh: boundary integral of x.n == d * volume ----------------------------------------
        if divergence and m.t.shape[1] == 1 and find is None and side == 0:
            fb2 = S.FacetBasis(m, e, mapping=mp, intorder=2)
            val = S.Functional(lambda w: dot(w.x, w.n), dtype=object if h.sym_mode else np.float64).assemble(fb2)
            if m.refdom.__name__ in ('RefTri', 'RefTet', 'RefLine'):
                d0 = simplex_det(P, t[:, 0])
                fact = {1: 1, 2: 2, 3: 6}[dim]
                vol2 = d0 * d0 / (fact * fact)
                zero('(boundary integral of x.n)^2 == (d |K|)^2', val * val - dim * dim * vol2)


def quadratic_weights(elem, X):
    """Own second-order Lagrange weights at reference point X, built from the element's reference node table only."""
    D = np.asarray(elem.doflocs, dtype=float)
    name = elem.refdom.__name__
    out = []
    if name == 'RefTri':
        lam = [1 - X[0] - X[1], X[0], X[1]]
        for a in range(D.shape[0]):
            b = [1 - D[a, 0] - D[a, 1], D[a, 0], D[a, 1]]
            ones = [i for i in range(3) if abs(b[i] - 1) < 1e-12]
            halves = [i for i in range(3) if abs(b[i] - 0.5) < 1e-12]
            out.append(lam[ones[0]] * (2 * lam[ones[0]] - 1) if ones else 4 * lam[halves[0]] * lam[halves[1]])
    elif name == 'RefQuad':
        def L(c, x):
            if abs(c) < 1e-12:
                return (1 - x) * (1 - 2 * x)
            if abs(c - 1) < 1e-12:
                return x * (2 * x - 1)
            return 4 * x * (1 - x)
        for a in range(D.shape[0]):
            out.append(L(D[a, 0], X[0]) * L(D[a, 1], X[1]))
    else:
        raise ValueError(name)
    return out


def curved_config(h, mesh, cls):
    """Second-order (curved) meshes: vertices AND mid-side (and cell-centre) nodes symbolic."""
    import skfem as S
    with warnings.catch_warnings():
        warnings.simplefilter('ignore')
        m1 = make_mesh(h, mesh)
        C = getattr(S, cls)
        M0 = C.from_mesh(m1)
        nv = m1.p.shape[1]
        P0 = M0.doflocs
        nom = np.zeros((2, P0.shape[1] - nv))
        from engine.zoo import topo
        _, pn, tn = topo(mesh)
        Mf = C.from_mesh(getattr(S, type(m1).__name__)(pn, tn))
        bump = ((np.arange(nom.size).reshape(nom.shape) * 7 % 5) - 2) / 64.0
        nom = np.asarray(Mf.doflocs, dtype=float)[:, nv:] + bump
        q = h.sym('q', nom.shape, nominal=nom)
        P = np.empty(P0.shape, dtype=object if h.sym_mode else float)
        P[:, :nv] = P0[:, :nv]
        P[:, nv:] = q
        from dataclasses import replace
        M = replace(M0, doflocs=P)
        mp = M._mapping()
        e = M.elem()
        ed = np.asarray(M.dofs.element_dofs)
        nt = ed.shape[1]
        X = points(h, 2, 'shared', nt)
        npts = X.shape[-1]
        h.sample(dict(mesh=mesh, cls=cls, cells=int(nt), nodes_per_cell=int(ed.shape[0]), symbolic_nodes=int(P.shape[1])))

        def own(c, Xq):
            w = quadratic_weights(e, Xq)
            return [sum(w[a] * P[d, ed[a, c]] for a in range(len(w))) for d in range(2)]
        if h.sym_mode:
            for c in range(nt):
                for q_ in range(npts):
                    Xq = [X[d, q_] for d in range(2)]
                    o = own(c, Xq)
                    Jo = np.array([[dsym(tosym(o[a]), Xq[b], {}) for b in range(2)] for a in range(2)], dtype=object)
                    h.assume(tosym(det_obj(Jo)) != 0)
        Fx = mp.F(X)
        DF = mp.DF(X)
        iDF = mp.invDF(X)
        dDF = mp.detDF(X)
        for c in range(nt):
            for q_ in range(npts):
                Xq = [X[d, q_] for d in range(2)]
                o = own(c, Xq)
                for d in range(2):
                    h.zero('F[%d] cell %d pt %d == own second-order map' % (d, c, q_), Fx[d, c, q_] - o[d])
                J = np.array([[DF[a, b, c, q_] for b in range(2)] for a in range(2)], dtype=object if h.sym_mode else float)
                if h.sym_mode:
                    for a in range(2):
                        for b in range(2):
                            h.zero('DF[%d,%d] cell %d pt %d == dF/dX' % (a, b, c, q_), J[a, b] - dsym(tosym(Fx[a, c, q_]), Xq[b], {}))
                h.zero('detDF cell %d pt %d == det(DF)' % (c, q_), dDF[c, q_] - det_obj(J))
                for a in range(2):
                    for b in range(2):
                        h.zero('invDF DF [%d,%d] cell %d pt %d' % (a, b, c, q_), sum(iDF[a, k, c, q_] * J[k, b] for k in range(2)) - (1 if a == b else 0))
        # facet map: quadratic curve through the two end vertices and the mid-side node
        s = h.sym('s', (1, 1), nominal=np.array([[0.3125]]))
        fac = np.asarray(M.facets)
        fdofs = np.asarray(M.dofs.facet_dofs)
        fi = np.arange(fac.shape[1]).astype(np.int32)
        G = mp.G(s, find=fi)
        dG = mp.detDG(s, find=fi)
        for f in fi:
            sv = s[0, 0]
            w = [(1 - sv) * (1 - 2 * sv), sv * (2 * sv - 1), 4 * sv * (1 - sv)]
            nodes = [fac[0, f], fac[1, f], fdofs[0, f]]
            o = [sum(w[a] * P[d, nodes[a]] for a in range(3)) for d in range(2)]
            for d in range(2):
                h.zero('G[%d] facet %d == quadratic curve through its three nodes' % (d, f), G[d, f, 0] - o[d])
            if h.sym_mode:
                T = [dsym(tosym(o[d]), sv, {}) for d in range(2)]
                h.zero('detDG^2 facet %d == |dG/ds|^2' % f, dG[f, 0] * dG[f, 0] - (T[0] * T[0] + T[1] * T[1]))


def agree_config(h, mesh, layout, tind, free=None):
    """Affine and isoparametric implementations return the same values on straight-sided simplices."""
    with warnings.catch_warnings():
        warnings.simplefilter('ignore')
        m = make_mesh(h, mesh, free=free)
        dim = m.p.shape[0]
        ti = None if tind is None else np.array(tind, dtype=np.int64)
        a, b = get_mapping(m, 'affine'), get_mapping(m, 'iso')
        cells = list(range(m.t.shape[1])) if ti is None else list(ti)
        X = points(h, dim, layout, len(cells))
        h.sample(dict(mesh=mesh, points=layout, tind=tind))
        for name in ('F', 'DF', 'invDF', 'detDF'):
            h.equal('%s affine == isoparametric' % name, np.asarray(getattr(a, name)(X, tind=ti)), np.asarray(getattr(b, name)(X, tind=ti)))
        x = a.F(X, tind=ti)
        h.equal('invF affine == X', np.asarray(a.invF(x, tind=ti)), np.asarray(X if X.ndim == 3 else np.stack([X] * len(cells), axis=1)))
        if dim > 1:
            s = h.sym('s', (dim - 1, 1), nominal=np.array([[0.3125], [0.21875]])[:dim - 1])
            fi = np.arange(m.facets.shape[1]).astype(np.int32)
            h.equal('G affine == isoparametric', np.asarray(a.G(s, find=fi)), np.asarray(b.G(s, find=fi)))
            da, db = np.asarray(a.detDG(s, find=fi)), np.asarray(b.detDG(s, find=fi))
            h.equal('detDG^2 affine == isoparametric', da * da, db * db)


def jcache_config(h, mesh, npts, tind, free=None):
    """Jacobian cache of MappingIsoparametric (keyed on hash_args(i, j, X, tind)) with point arrays of `npts` columns: two point sets
    differing in ONE interior column / two cell subsets of equal length must not share an entry."""
    import skfem as S
    with warnings.catch_warnings():
        warnings.simplefilter('ignore')
        m = make_mesh(h, mesh, free=free)
        dim = m.p.shape[0]
        nt = m.t.shape[1]
        base = (np.arange(dim * npts).reshape(dim, npts) * 37 % 101 + 1) / 128.0
        X1 = h.const(base)
        b2 = base.copy()
        mid = npts // 2
        b2[:, mid] = b2[:, mid] + 0.125
        X2 = h.const(b2)
        h.sample(dict(mesh=mesh, entries=int(dim * npts), tind=tind, changed_column=int(mid)))
        ti = None if tind is None else np.array(tind, dtype=np.int64)
        used = get_mapping(m, 'iso')
        used.DF(X1, tind=ti)                                  # fills the cache
        got = np.asarray(used.DF(X2, tind=ti))
        ref = np.asarray(get_mapping(m, 'iso').DF(X2, tind=ti))
        for q in sorted({0, mid, npts - 1}):
            h.equal('DF(X2) after DF(X1) == DF(X2) on a fresh mapping (column %d)' % q, got[..., q], ref[..., q])
        if nt > 1 and ti is not None:
            t2 = np.array(list(ti[1:]) + list(ti[:1]), dtype=np.int64)     # same length, rotated
            got = np.asarray(used.DF(X2, tind=t2))
            ref = np.asarray(get_mapping(m, 'iso').DF(X2, tind=t2))
            h.equal('DF(X2, rotated tind) after DF(X2, tind) == fresh', got[..., mid], ref[..., mid])
        # same bytes, different shape: (dim, npts) shared points vs. per-cell layout with one cell (dim, 1, npts) is exercised by C15;
        # here: a transposed-looking reshape of the same buffer
        if dim == 2 and npts % 2 == 0:
            X3 = h.const(b2.reshape(-1)[: 2 * (npts // 2) * 2].reshape(2, 2, npts // 2)[:, :nt if ti is None else len(ti)])
            if X3.shape[1] == (nt if ti is None else len(ti)):
                got = np.asarray(used.DF(X3, tind=ti))
                ref = np.asarray(get_mapping(m, 'iso').DF(X3, tind=ti))
                h.equal('DF(per-cell points) after shared-point calls == fresh', got[..., 0], ref[..., 0])


def facet_args_config(h, mesh, mapkind, free=None, cls=None):
    """Ways of passing facets and points to the facet map: find=None == find=all facets; a subset in any order == the same columns
    of the full result; per-facet point arrays (dim-1, nfacets, npts) whose columns agree with the shared points == shared points;
    straight-sided second-order classes == the affine map of their first-order skeleton."""
    import skfem as S
    with warnings.catch_warnings():
        warnings.simplefilter('ignore')
        m1 = make_mesh(h, mesh, free=free)
        m = m1 if cls is None else getattr(S, cls).from_mesh(m1)
        dim = m.p.shape[0]
        mp = get_mapping(m, mapkind)
        nf = m.facets.shape[1]
        s = h.sym('s', (dim - 1, 2), nominal=np.array([[0.3125, 0.125], [0.21875, 0.5]])[:dim - 1])
        allf = np.arange(nf).astype(np.int32)
        sub = np.array([nf - 1, 0, nf // 2], dtype=np.int32)
        h.sample(dict(mesh=mesh, mapping=mapkind, cls=cls, facets=int(nf)))
        G0 = np.asarray(mp.G(s))
        h.concrete('G shape', G0.shape == (dim, nf, 2), str(G0.shape))
        h.equal('G(find=None) == G(find=all facets)', G0, np.asarray(mp.G(s, find=allf)))
        h.equal('G(find=subset) == columns of the full result', np.asarray(mp.G(s, find=sub)), G0[:, sub])
        d0 = np.asarray(mp.detDG(s))
        h.equal('detDG(find=None) == detDG(find=all facets)', d0, np.asarray(mp.detDG(s, find=allf)))
        h.equal('detDG(find=subset) == columns of the full result', np.asarray(mp.detDG(s, find=sub)), d0[sub])
        if mapkind == 'affine':
            # (the isoparametric class broadcasts shared points only)
            sp = np.stack([s for _ in range(len(sub))], axis=1)
            h.equal('G(per-facet points) == G(shared points)', np.asarray(mp.G(sp, find=sub)), G0[:, sub])
        if cls is not None:
            ref = get_mapping(m1, 'affine')
            h.equal('straight second-order class: G == affine map of the first-order skeleton', G0, np.asarray(ref.G(s)))
            dr = np.asarray(ref.detDG(s))
            h.equal('straight second-order class: detDG^2 == affine', d0 * d0, dr * dr)


def oriented_boundary_config(h, mesh, cells, flip, free=None):
    """FacetBasis over Mesh.facets_around(cells, flip): exactly the facets with one neighbour among the cells; traces are taken from
    the cell inside (flip: outside) the set; the normal is unit, orthogonal to the facet and points OUT of the set (flip: into it)."""
    import skfem as S
    from checks.c03 import facet_geometry
    with warnings.catch_warnings():
        warnings.simplefilter('ignore')
        m = make_mesh(h, mesh, free=free)
        P, t = m.doflocs, np.asarray(m.t)
        dim = P.shape[0]
        E = np.array(cells, dtype=np.int32)
        Eset = set(int(c) for c in cells)
        ob = m.facets_around(E, flip=flip)
        f2t = np.asarray(m.f2t)
        want = sorted(f for f in range(f2t.shape[1]) if sum(1 for K in f2t[:, f] if K != -1 and int(K) in Eset) == 1)
        h.concrete('facets_around == facets with exactly one neighbour in the set', sorted(int(f) for f in np.asarray(ob)) == want,
                   '%s vs %s' % (sorted(int(f) for f in np.asarray(ob)), want))
        s = h.sym('s', (dim - 1, 1), nominal=np.array([[0.3125], [0.21875]])[:dim - 1])
        W = h.const(np.ones(1))
        e = m.elem()
        if flip:
            # "traces outside the set" exist only where there IS a cell outside: facets on the outer boundary are left out (with them
            # the library indexes cell -1 and reads an uninitialised array - unsupported use, noted in DESIGN 10.4)
            from skfem.generic_utils import OrientedBoundary
            keep = np.array([k for k, f in enumerate(np.asarray(ob)) if f2t[1, int(f)] != -1], dtype=np.int64)
            if len(keep) == 0:
                raise Skip('no facet with a cell outside the set')
            ob = OrientedBoundary(np.asarray(ob)[keep], np.asarray(ob.ori)[keep])
        fb = S.FacetBasis(m, e, facets=ob, quadrature=(s, W))
        h.sample(dict(mesh=mesh, cells=list(map(int, cells)), flip=flip, facets=want))
        n_lib = np.asarray(fb.normals)
        for k, f in enumerate(np.asarray(fb.find)):
            f = int(f)
            K = int(fb.tind[k])
            inside = [int(c) for c in f2t[:, f] if c != -1 and int(c) in Eset][0]
            outside = [int(c) for c in f2t[:, f] if c != -1 and int(c) not in Eset]
            if flip and not outside:
                # an outer boundary facet has no cell outside the set: the library documents traces "outside the subdomain" only for
                # interior facets; nothing to demand here
                continue
            h.concrete('facet %d: traces taken from the cell %s the set' % (f, 'outside' if flip else 'inside'),
                       (K not in Eset) if flip else (K in Eset), 'cell %d' % K)
            xg, T, n_own, lam = facet_geometry(h, m, f, s)
            nv = [n_lib[d, k, 0] for d in range(dim)]
            h.zero('facet %d: |n|^2 == 1' % f, sum(c * c for c in nv) - 1)
            for j, Tj in enumerate(T):
                h.zero('facet %d: n . tangent_%d == 0' % (f, j), sum(nv[d] * Tj[d] for d in range(dim)))
            # the vertex of the INSIDE cell opposite to the facet lies on the inner side
            fv = set(int(v) for v in np.asarray(m.facets)[:, f])
            opp = [int(v) for v in t[:, inside] if int(v) not in fv][0]
            sgn = sum((P[d, opp] - xg[d]) * nv[d] for d in range(dim))
            h.valid('facet %d: normal points %s the set' % (f, 'into' if flip else 'out of'), (sgn > 0) if flip else (sgn < 0), kinds=('nlsat', 'default'))


def build_configs(tier, seed):
    quick = tier == 'quick'
    cfgs = []

    def add(name, fn, **kw):
        opts = dict(timeout=kw.pop('timeout', 300 if quick else 1800))
        cfgs.append(dict(name=name, fn=fn, kw=kw, opts=opts))
    # ---- cell maps -------------------------------------------------------------------------------------------------------------
    subsets3 = [None, [1], [2, 0], [2, 0, 1], [0, 0, 2], [1, 2, 2]] if not quick else [None, [2, 0], [0, 0, 2]]   # incl. repeated cells (facet bases)
    for mesh in ['tri3fan', 'line3perm'] + ([] if quick else ['tet2']):
        for mk in ('affine', 'iso'):
            for layout in ('shared', 'percell'):
                for ti in (subsets3 if mesh != 'tet2' else [None, [1]]):
                    add('cell/%s/%s/%s/tind=%s' % (mesh, mk, layout, ti), cellmap_config, mesh=mesh, mapkind=mk, layout=layout, tind=ti)
    add('cell/tet2/affine/shared/tind=None', cellmap_config, mesh='tet2', mapkind='affine', layout='shared', tind=None) if quick else None
    add('cell/tet2/iso/percell/tind=[1]', cellmap_config, mesh='tet2', mapkind='iso', layout='percell', tind=[1]) if quick else None
    add('cell/tri3fan/affine-memopt/shared/tind=[2, 0]', cellmap_config, mesh='tri3fan', mapkind='affine', layout='shared', tind=[2, 0],
        affine_tind_ctor=True)
    for layout in ('shared', 'percell'):
        for ti in ([None, [1]] if quick else [None, [1], [1, 0]]):
            add('cell/quad2/iso/%s/tind=%s' % (layout, ti), cellmap_config, mesh='quad2', mapkind='iso', layout=layout, tind=ti)
    add('cell/hex1/iso/shared/free=0', cellmap_config, mesh='hex1', mapkind='iso', layout='shared', tind=None, free=[0], timeout=900)
    add('cell/wedge1/iso/shared/Gnum', cellmap_config, mesh='wedge1', mapkind='iso', layout='shared', tind=None, free='none')
    if not quick:
        add('cell/hex2/iso/percell/free=0,5', cellmap_config, mesh='hex2', mapkind='iso', layout='percell', tind=[1, 0], free=[0, 5], timeout=2400)
    # Newton inverse executed symbolically where it terminates exactly (affine geometry)
    add('newton/tri2/iso/shared/Gnum', cellmap_config, mesh='tri2', mapkind='iso', layout='shared', tind=None, newton=True, free='none', timeout=900)
    add('newton/line3/iso/shared/Gnum', cellmap_config, mesh='line3', mapkind='iso', layout='shared', tind=None, newton=True, free='none')
    if not quick:
        add('newton/tet1/iso/shared/Gnum', cellmap_config, mesh='tet1', mapkind='iso', layout='shared', tind=None, newton=True, free='none', timeout=2400)
        add('newton/tri1/iso/shared', cellmap_config, mesh='tri1', mapkind='iso', layout='shared', tind=None, newton=True, timeout=2400)
    for mesh, ti in [('quad2', None), ('quad2mix', None), ('quad2mix', [1, 0]), ('hex2', None), ('hex1', None)]:
        for layout in ('shared', 'percell'):
            add('newton-numeric/%s/tind=%s/%s' % (mesh, ti, layout), newton_numeric_config, mesh=mesh, tind=ti, layout=layout)
    # ---- facet maps and normals ----------------------------------------------------------------------------------------------------
    for mesh in ['tri2', 'tri2perm'] + ([] if quick else ['tri3fan']):
        for side in (0, 1):
            add('facet/%s/affine/side=%d' % (mesh, side), facet_config, mesh=mesh, mapkind='affine', side=side)
            # isoparametric class on simplices: FacetBasis goes through the Newton inverse; numeric geometry, symbolic parameter
            add('facet/%s/iso/Gnum/side=%d' % (mesh, side), facet_config, mesh=mesh, mapkind='iso', side=side, free='none')
    add('facet/tri2/affine/find=[3, 0]', facet_config, mesh='tri2', mapkind='affine', find=[3, 0])
    add('facet/line3perm/affine/side=0', facet_config, mesh='line3perm', mapkind='affine', side=0)
    add('facet/line3perm/affine/side=1', facet_config, mesh='line3perm', mapkind='affine', side=1)
    add('facet/tet2/affine/Gnum/side=0', facet_config, mesh='tet2', mapkind='affine', side=0, free='none', timeout=900)
    add('facet/tet2/affine/side=1/no-outward', facet_config, mesh='tet2', mapkind='affine', side=1, outward=False, timeout=900)
    add('facet/tet2/iso/Gnum/side=1', facet_config, mesh='tet2', mapkind='iso', side=1, free='none', timeout=900)
    add('facet/tri1heron/affine/Gnum/divergence', facet_config, mesh='tri1heron', mapkind='affine', divergence=True, free='none')
    if not quick:
        add('facet/tri1/affine/divergence', facet_config, mesh='tri1', mapkind='affine', divergence=True, timeout=3000)
        add('facet/tet2/affine/side=0', facet_config, mesh='tet2', mapkind='affine', side=0, timeout=3000)
        add('facet/tet1/affine/divergence', facet_config, mesh='tet1', mapkind='affine', divergence=True, timeout=3000)
    # quadrilaterals / hexahedra: Newton converges only in the limit -> numeric geometry AND numeric facet parameter (1e-9 tolerance)
    for side in (0, 1):
        add('facet/quad2/iso/numeric/side=%d' % side, facet_config, mesh='quad2', mapkind='iso', free='none', side=side, numeric_s=True)
        add('facet/quad2mix/iso/numeric/side=%d' % side, facet_config, mesh='quad2mix', mapkind='iso', free='none', side=side, numeric_s=True)
        add('facet/hex2/iso/numeric/side=%d' % side, facet_config, mesh='hex2', mapkind='iso', free='none', side=side, numeric_s=True, timeout=900)
    # ---- oriented boundaries of cell sets (Mesh.facets_around) ---------------------------------------------------------------------------
    for mesh, cells, free in [('tri3fan', [0], None), ('tri3fan', [1, 2], None), ('tri3fan', [2], None), ('tet2', [1], [4]), ('line3perm', [1], None),
                              ('tri4patch', [0, 2], [4])]:
        for flip in (False, True):
            add('oriented-boundary/%s/cells=%s/flip=%s' % (mesh, ''.join(map(str, cells)), flip), oriented_boundary_config, mesh=mesh, cells=cells,
                flip=flip, free=free, timeout=900)
    # ---- ways of passing facets / points to the facet map ------------------------------------------------------------------------------
    for mesh, mk, free, cls in [('tri2', 'affine', None, None), ('tri2', 'iso', None, None), ('quad2', 'iso', None, None), ('tet2', 'affine', [4], None),
                                ('tet2', 'iso', [4], None), ('tri2', 'iso', None, 'MeshTri2'), ('tet2', 'iso', 'none', 'MeshTet2'), ('line3perm', 'affine', None, None)]:
        add('facet-args/%s/%s%s' % (mesh, mk, '' if cls is None else '/' + cls), facet_args_config, mesh=mesh, mapkind=mk, free=free, cls=cls, timeout=900)
    # ---- curved second-order meshes: vertices and mid-side nodes symbolic ------------------------------------------------------------------
    add('curved/tri2/MeshTri2', curved_config, mesh='tri2', cls='MeshTri2', timeout=900)
    add('curved/quad1/MeshQuad2', curved_config, mesh='quad1', cls='MeshQuad2', timeout=900)
    if not quick:
        add('curved/quad2/MeshQuad2', curved_config, mesh='quad2', cls='MeshQuad2', timeout=3000)
    # ---- Jacobian cache with point arrays beyond 1000 entries (the size at which NumPy's textual summaries start to elide) ---------
    add('jcache/quad2/npts=8/tind=[1, 0]', jcache_config, mesh='quad2', npts=8, tind=[1, 0], free=[0])
    add('jcache/quad2/npts=600/tind=[1, 0]', jcache_config, mesh='quad2', npts=600, tind=[1, 0], free=[0], timeout=900)
    if not quick:
        add('jcache/quad2/npts=2500/tind=None', jcache_config, mesh='quad2', npts=2500, tind=None, free=[0], timeout=2400)
        add('jcache/tri2/npts=600/tind=[1, 0]', jcache_config, mesh='tri2', npts=600, tind=[1, 0], free=[0], timeout=2400)
    # ---- affine == isoparametric on simplices --------------------------------------------------------------------------------------------
    for mesh in ['tri3fan', 'line3perm', 'tet2']:
        for layout in ('shared', 'percell'):
            for ti in ([None, [1]] if quick else [None, [1], [1, 0]]):
                add('agree/%s/%s/tind=%s' % (mesh, layout, ti), agree_config, mesh=mesh, layout=layout, tind=ti,
                    free=([0] if (mesh == 'tet2' and quick) else None), timeout=600 if quick else 3000)
    return [c for c in cfgs if c is not None]


META = dict(
    explanation='The real mapping classes run on meshes with SYMBOLIC vertex coordinates at SYMBOLIC reference points / facet parameters. '
                'z3 decides: F == own map built from refdom.p; DF == dF/dX (astdiff); invDF DF == I; detDF == Leibniz det; invF(F(X)) == X and '
                'F(invF(x)) == x (affine closed form; isoparametric Newton loop executed symbolically on affine geometry, where it terminates '
                'exactly); G(s) == interpolation of the facet vertices; detDG^2 == Gram determinant; FacetBasis normals unit, orthogonal to the '
                'facet tangents, pointing out of the cell they are taken from (under mesh validity); (boundary integral of x.n)^2 == (d|K|)^2; '
                'affine == isoparametric on simplices; for shared and per-cell point layouts and cell subsets / permutations / None.',
    symbolic='vertex coordinates, reference points, facet parameters',
    bounds=dict(meshes='1-3 cell meshes per class; hexahedra one (thorough two) free vertices; prism numeric',
                newton='symbolic only on affine geometry (tri, thorough tet/line); general quads/hexes/mixed batches numeric with 1e-9 tolerance (concrete)',
                layouts='(dim,npts) and (dim,ncells,npts); tind in {None, subset, permutation, list with repeated cells}; MappingAffine(mesh, tind=...)'),
    outside=['Newton inverse and normals on curved cells', 'curved tetrahedra/hexahedra', 'Newton convergence on general cells for all geometries',
             'Jacobian cache behaviour on point arrays beyond 1200 (thorough 5000) entries', 'float rounding'],
    stubs=[],
    assumptions=['mesh validity (non-degenerate cells, neighbours on opposite sides, convex quadrilaterals)'],
    design_ref='DESIGN.md 4/C10',
)

if __name__ == '__main__':
    sys.exit(harness.main('C10', 'checks.c10', build_configs, META))
