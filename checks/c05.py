"""C05 - essential boundary conditions: condense, enforce, penalize, expansion.

Symbolic: one real per STORED entry of A (explicit zeros are just a value), b, x, matrix rhs M, diag, epsilon and the
candidate solution y returned by the stubbed linear solver ("any y with Aout y = bout").
Real code: skfem.utils._flatten_dofs/_init_bc/enforce/penalize/condense/solve_linear/solve/solve_eigen.
Sparse container: engine.stubs_sparse.SymCSR (scipy rejects object dtype), differentially validated each run.
"""
import itertools
import sys
import warnings

import numpy as np

from engine import harness
from engine.stubs_sparse import SymCSR, make_csr, selfcheck
from engine.sym import tosym


def dense(A, h):
    return A.toarray() if h.sym_mode else np.asarray(A.toarray(), dtype=float)


def snapshot(h, *arrs):
    out = []
    for a in arrs:
        if isinstance(a, np.ndarray):
            out.append(a.copy())
        else:
            out.append((a.data.copy(), a.indices.copy(), a.indptr.copy()))
    return out


def unchanged(h, key, snap, *arrs):
    """Operands bit-for-bit (float) / term-for-term (symbolic) unchanged."""
    ok = True
    for s, a in zip(snap, arrs):
        if isinstance(a, np.ndarray):
            pairs = [(s, a)]
        else:
            pairs = [(s[0], a.data), (s[1], a.indices), (s[2], a.indptr)]
        for p, q in pairs:
            if p.shape != q.shape:
                ok = False
            elif p.dtype == object:
                for u, v in zip(p.ravel(), q.ravel()):
                    if u is v:
                        continue
                    ua, va = getattr(u, 'a', None), getattr(v, 'a', None)
                    if ua is None or va is None:
                        ok &= bool(ua is None and va is None and u == v)
                    else:
                        ok &= bool(ua.eq(va))
            else:
                ok &= bool(np.array_equal(p, q))
    return h.concrete(key, ok, 'an operand was modified')


def system(h, n, mask, mmask=None):
    nomA = (np.arange(n * n).reshape(n, n) * 7 % 11) - 4.5 + 9 * np.eye(n)
    Av = h.sym('a', (n, n), nominal=nomA)
    b = h.sym('b', (n,), nominal=np.arange(1, n + 1) * 0.75)
    x = h.sym('x', (n,), nominal=-np.arange(1, n + 1) * 1.25)
    y = h.sym('y', (n,), nominal=np.arange(n) - 0.5)
    A = make_csr(h.sym_mode, Av, mask)
    if h.sym_mode:
        h.stub('scipy.sparse.csr_matrix -> SymCSR (object data, concrete pattern; differentially validated)')
    Ad = np.where(mask, Av, 0 * Av[0, 0] if False else 0)
    Ad = np.array([[Av[i, j] if mask[i, j] else (Av[i, j] * 0) for j in range(n)] for i in range(n)],
                  dtype=object if h.sym_mode else float)
    return Av, Ad, A, b, x, y


def subsets(n, allow_trivial=True):
    out = []
    for r in range(0 if allow_trivial else 1, n + 1 if allow_trivial else n):
        for D in itertools.combinations(range(n), r):
            out.append(np.array(D, dtype=np.int64))
    return out


def check_enforce(h, tag, n, Ad, A, b, x, D, kw, diag=None):
    from skfem.utils import enforce
    snap = snapshot(h, A, b, x)
    args = dict(kw)
    if diag is not None:
        args['diag'] = diag
    Ao, bo = enforce(A, b, x=x, **args)
    unchanged(h, tag + ':operands-unchanged', snap, A, b, x)
    Do = dense(Ao, h)
    dg = 1.0 if diag is None else diag
    Dset = set(int(d) for d in D)
    for i in range(n):
        for j in range(n):
            want = (dg if i == j else 0.0) if i in Dset else Ad[i, j]
            h.zero('%s:A[%d,%d]' % (tag, i, j), Do[i, j] - want)
        h.zero('%s:b[%d]' % (tag, i), bo[i] - (x[i] if i in Dset else b[i]))


def check_defaults(h, tag, n, Ad, A, b, x, D, I, kw, eps):
    """Omitted arguments: x omitted == x = 0; b omitted with x given == b = 0; both omitted -> the matrix alone; expand=False."""
    from skfem.utils import enforce, condense, penalize
    Dset = set(int(d) for d in D)
    zero = 0 * x[0] if n else 0
    # --- enforce ---
    Ao, bo = enforce(A, b, **kw)
    for i in range(n):
        h.zero('%s:enforce(x omitted):b[%d]' % (tag, i), bo[i] - (zero if i in Dset else b[i]))
    Ao2, bo2 = enforce(A, x=x, **kw)
    for i in range(n):
        h.zero('%s:enforce(b omitted):b[%d]' % (tag, i), bo2[i] - (x[i] if i in Dset else zero))
    Am = enforce(A, **kw)
    h.concrete('%s:enforce(matrix only) returns one matrix' % tag, not isinstance(Am, tuple))
    if not isinstance(Am, tuple):
        Dm, Dr = dense(Am, h), dense(Ao, h)
        for i in range(n):
            for j in range(n):
                h.zero('%s:enforce(matrix only):A[%d,%d]' % (tag, i, j), Dm[i, j] - Dr[i, j])
    # --- penalize ---
    Pm = penalize(A, epsilon=eps, **kw)
    h.concrete('%s:penalize(matrix only) returns one matrix' % tag, not isinstance(Pm, tuple))
    if not isinstance(Pm, tuple):
        Dp = dense(Pm, h)
        for i in range(n):
            for j in range(n):
                h.zero('%s:penalize(matrix only):A[%d,%d]' % (tag, i, j), Dp[i, j] - ((1.0 / eps) if (i == j and i in Dset) else Ad[i, j]))
    # --- condense ---
    if 0 < len(D) < n:
        Ac, bc, xx, II = condense(A, b, **kw)
        II = np.asarray(II)
        for p_, i in enumerate(II):
            h.zero('%s:condense(x omitted):b[%d]' % (tag, p_), bc[p_] - b[i])
        h.concrete('%s:condense(x omitted): expansion vector is zero' % tag, all(bool(tosym(v) == 0) if h.sym_mode else v == 0 for v in np.asarray(xx)))
        out = condense(A, b, x=x, expand=False, **kw)
        h.concrete('%s:condense(expand=False) returns (A, b)' % tag, isinstance(out, tuple) and len(out) == 2)
        Cm = condense(A, expand=False, **kw)
        h.concrete('%s:condense(matrix only, expand=False) returns one matrix' % tag, not isinstance(Cm, tuple))
        if not isinstance(Cm, tuple):
            Dc = dense(Cm, h)
            h.concrete('%s:condense(matrix only):shape' % tag, Dc.shape == (len(II), len(II)))
            for p_, i in enumerate(II):
                for q_, j in enumerate(II):
                    h.zero('%s:condense(matrix only):A[%d,%d]' % (tag, p_, q_), Dc[p_, q_] - Ad[i, j])


def check_enforce_overwrite(h, tag, n, Ad, A, b, x, D, kw):
    from skfem.utils import enforce
    A2 = A.copy()
    b2 = b.copy()
    Ao, bo = enforce(A2, b2, x=x, overwrite=True, **kw)
    h.concrete(tag + ':overwrite-returns-operands', Ao is A2 and bo is b2)
    Do = dense(Ao, h)
    Dset = set(int(d) for d in D)
    for i in range(n):
        for j in range(n):
            want = (1.0 if i == j else 0.0) if i in Dset else Ad[i, j]
            h.zero('%s:ow:A[%d,%d]' % (tag, i, j), Do[i, j] - want)


def check_enforce_matrix_rhs(h, tag, n, Ad, A, Md, M, x, D, kw):
    from skfem.utils import enforce
    snap = snapshot(h, A, M)
    Ao, Mo = enforce(A, M, **kw)
    unchanged(h, tag + ':operands-unchanged', snap, A, M)
    Do, Mo_ = dense(Ao, h), dense(Mo, h)
    Dset = set(int(d) for d in D)
    for i in range(n):
        for j in range(n):
            h.zero('%s:A[%d,%d]' % (tag, i, j), Do[i, j] - ((1.0 if i == j else 0.0) if i in Dset else Ad[i, j]))
            h.zero('%s:M[%d,%d]' % (tag, i, j), Mo_[i, j] - (0.0 if i in Dset else Md[i, j]))


def check_penalize(h, tag, n, Ad, A, b, x, D, kw, eps):
    from skfem.utils import penalize
    snap = snapshot(h, A, b, x)
    Ao, bo = penalize(A, b, x=x, epsilon=eps, **kw)
    unchanged(h, tag + ':operands-unchanged', snap, A, b, x)
    Do = dense(Ao, h)
    Dset = set(int(d) for d in D)
    for i in range(n):
        for j in range(n):
            want = (1.0 / eps) if (i == j and i in Dset) else Ad[i, j]
            h.zero('%s:A[%d,%d]' % (tag, i, j), Do[i, j] - want)
        h.zero('%s:b[%d]' % (tag, i), bo[i] - ((x[i] / eps) if i in Dset else b[i]))


def check_penalize_default(h, tag, n, Ad, A, b, x, D, kw, mask):
    """Default penalty: epsilon = 1e-10 / max_{i in D} |A_ii|  (skipped by the caller when no diagonal entry of D is stored)."""
    from skfem.utils import penalize
    if h.sym_mode:
        # this check runs without the NumPy proxy; np.linalg.norm(., inf) of symbolic entries needs it for this one call
        import skfem.utils as U
        from engine import symnp
        real_np, U.np = U.np, symnp.PROXY
        try:
            Ao, bo = penalize(A, b, x=x, **kw)
        finally:
            U.np = real_np
    else:
        Ao, bo = penalize(A, b, x=x, **kw)
    Do = dense(Ao, h)
    Dset = sorted(int(d) for d in D)
    # own maximum of the absolute values (forks on the signs and the order of the symbolic diagonal entries)
    best = None
    for i in Dset:
        a = Ad[i, i]
        a = -a if bool(a < 0) else a
        if best is None or bool(a > best):
            best = a
    # The default penalty is whatever the library picks, as long as it IS a penalty: one common positive value on the constrained
    # diagonal, at least 10^6 times the largest constrained diagonal entry in absolute value, the right-hand side scaled with it,
    # everything else untouched.  (The shipped choice is 1e10 max|d|; its exact value is not demanded.)
    if h.sym_mode:
        h.assume(best > 0)
    elif not best > 0:
        return
    pen = Do[Dset[0], Dset[0]]
    h.valid('%s: penalty is positive and >= 1e6 max|A_ii| over the constrained rows' % tag, h.And(pen > 0, pen >= best * 10 ** 6), kinds=('default', 'nlsat'))
    scale = 1.0 if h.sym_mode else max(1.0, abs(float(pen)))
    for i in range(n):
        for j in range(n):
            want = pen if (i == j and i in Dset) else Ad[i, j]
            h.zero('%s:A[%d,%d]' % (tag, i, j), Do[i, j] - want, scale=scale)
        h.zero('%s:b[%d]' % (tag, i), bo[i] - ((x[i] * pen) if i in Dset else b[i]), scale=scale)


def check_condense(h, tag, n, Ad, A, b, x, y, D, I, kw):
    from skfem.utils import condense, solve
    snap = snapshot(h, A, b, x)
    Ac, bc, xx, II = condense(A, b, x=x, **kw)
    unchanged(h, tag + ':operands-unchanged', snap, A, b, x)
    h.concrete(tag + ':I', np.array_equal(np.sort(np.asarray(II)), np.sort(I)), 'returned kept set differs')
    II = np.asarray(II)
    Dc = dense(Ac, h)
    h.concrete(tag + ':shape', Dc.shape == (len(II), len(II)) and bc.shape == (len(II),))
    for p, i in enumerate(II):
        for q, j in enumerate(II):
            h.zero('%s:A[%d,%d]' % (tag, p, q), Dc[p, q] - Ad[i, j])
        h.zero('%s:b[%d]' % (tag, p), bc[p] - (b[i] - sum((Ad[i, j] * x[j] for j in D), 0 * b[i])))
    # expansion: the solver is any function returning some y with Ac y = bc
    yI = y[:len(II)]
    hyp = []
    for p in range(len(II)):
        lhs = sum((Dc[p, q] * yI[q] for q in range(len(II))), 0 * yI[0] if len(II) else 0)
        hyp.append(h.eq(lhs, bc[p]))
    snap2 = snapshot(h, xx)
    z = solve(Ac, bc, xx, II, solver=lambda A_, b_, **k: yI)
    unchanged(h, tag + ':x-unchanged-by-solve', snap2, xx)
    for i in D:
        h.zero('%s:expand:z[%d]==x' % (tag, i), z[i] - x[i])
    for i in I:
        r = sum((Ad[i, j] * z[j] for j in range(n)), 0 * z[0]) - b[i]
        h.zero('%s:expand:(Az-b)[%d]' % (tag, i), r, hyps=hyp)
    # expand=False variants
    r2 = condense(A, b, x=x, expand=False, **kw)
    h.concrete(tag + ':noexpand-arity', isinstance(r2, tuple) and len(r2) == 2)
    r3 = condense(A, expand=False, **kw)
    h.concrete(tag + ':matrix-only', hasattr(r3, 'shape') and r3.shape == (len(II), len(II)))


def check_condense_matrix_rhs(h, tag, n, Ad, A, Md, M, x, D, I, kw):
    from skfem.utils import condense, solve
    Ac, Mc, xx, II = condense(A, M, **kw)
    II = np.asarray(II)
    Dc, Mcd = dense(Ac, h), dense(Mc, h)
    for p, i in enumerate(II):
        for q, j in enumerate(II):
            h.zero('%s:A[%d,%d]' % (tag, p, q), Dc[p, q] - Ad[i, j])
            h.zero('%s:M[%d,%d]' % (tag, p, q), Mcd[p, q] - Md[i, j])
    # eigen-solver expansion: index bookkeeping y[I] = X with symbolic X, constrained entries = x (zeros)
    k = 2
    X = h.sym('X', (len(II), k), nominal=np.arange(len(II) * k).reshape(len(II), k) + 1.0)
    L = h.sym('L', (k,), nominal=np.arange(k) + 1.0)
    Lo, Y = solve(Ac, Mc, xx, II, solver=lambda K_, M_, **kk: (L, X))
    h.concrete(tag + ':eig-shape', np.shape(Y) == (n, k))
    for c in range(k):
        for p, i in enumerate(II):
            h.zero('%s:eig:Y[%d,%d]' % (tag, i, c), Y[i, c] - X[p, c])
        for i in D:
            h.zero('%s:eig:Y[%d,%d]' % (tag, i, c), Y[i, c] - xx[i])


def pattern_config(h, n, bits, forms, want):
    mask = np.array(bits, dtype=bool).reshape(n, n)
    Av, Ad, A, b, x, y = system(h, n, mask)
    h.sample(dict(n=n, stored_pattern=mask.astype(int).tolist(), forms=list(forms)))
    eps = h.sym('eps', (), nominal=0.125)
    dg = h.sym('dg', (), nominal=2.5)
    if h.sym_mode:
        h.assume(eps > 0)
    Mv = h.sym('m', (n, n), nominal=np.arange(n * n).reshape(n, n) % 5 + 1.0)
    mmask = mask.T | np.eye(n, dtype=bool) if n > 1 else mask
    M = make_csr(h.sym_mode, Mv, mmask)
    Md = np.array([[Mv[i, j] if mmask[i, j] else Mv[i, j] * 0 for j in range(n)] for i in range(n)],
                  dtype=object if h.sym_mode else float)
    allidx = np.arange(n)
    if h.sym_mode and mask.all():
        # canaries: deliberately false variants must be refuted with a model
        from skfem.utils import enforce, condense
        Ao, bo = enforce(A, b, x=x, D=np.array([0]))
        h.canary('canary:enforce-leaves-row-0', dense(Ao, h)[0, 1] - Ad[0, 1])
        Ac, bc, _, _ = condense(A, b, x=x, D=np.array([0]))
        h.canary('canary:condense-ignores-x', bc[0] - b[1])
    with warnings.catch_warnings():
        warnings.simplefilter('ignore')
        for D in subsets(n):
            I = np.setdiff1d(allidx, D)
            variants = []
            if 'D' in forms:
                variants.append(('D', dict(D=D.astype(np.int32))))
            if 'I' in forms:
                variants.append(('I', dict(I=I.astype(np.int32))))
            if 'Drev' in forms and len(D) > 1:
                variants.append(('Drev', dict(D=D[::-1].copy())))
            for vname, kw in variants:
                tag = 'D=%s/%s' % (''.join(map(str, D)) or '-', vname)
                if 'enforce' in want:
                    check_enforce(h, tag + ':enforce', n, Ad, A, b, x, D, kw)
                    if vname == 'D':
                        check_enforce(h, tag + ':enforce-diag', n, Ad, A, b, x, D, kw, diag=dg)
                        check_enforce_overwrite(h, tag + ':enforce', n, Ad, A, b, x, D, kw)
                        check_enforce_matrix_rhs(h, tag + ':enforce-M', n, Ad, A, Md, M, x, D, kw)
                if 'penalize' in want:
                    check_penalize(h, tag + ':penalize', n, Ad, A, b, x, D, kw, eps)
                    if vname == 'D' and n <= 2:
                        check_defaults(h, tag + ':defaults', n, Ad, A, b, x, D, I, kw, eps)
                    if vname == 'D' and len(D) and any(mask[i, i] for i in D) and n <= 2:
                        check_penalize_default(h, tag + ':penalize-default-epsilon', n, Ad, A, b, x, D, kw, mask)
                if 'condense' in want and 0 < len(D) < n or ('condense' in want and len(D) == 0):
                    check_condense(h, tag + ':condense', n, Ad, A, b, x, y, D, I, kw)
                    if vname == 'D':
                        check_condense_matrix_rhs(h, tag + ':condense-M', n, Ad, A, Md, M, x, D, I, kw)


def views_config(h):
    """Index sets given as DofsView / dict of views / named boundaries from a real basis on two triangles."""
    from skfem import MeshTri, Basis, ElementTriP1, ElementTriP2
    from skfem.utils import enforce, condense, penalize
    m = MeshTri.init_symmetric().with_boundaries({'left': lambda x: x[0] == 0, 'top': lambda x: x[1] == 1})
    for ename, e in (('P1', ElementTriP1()), ('P2', ElementTriP2())):
        basis = Basis(m, e)
        n = basis.N
        rng = np.random.RandomState(3)
        mask = np.zeros((n, n), dtype=bool)
        for k in range(basis.element_dofs.shape[1]):
            ed = basis.element_dofs[:, k]
            mask[np.ix_(ed, ed)] = True
        Av, Ad, A, b, x, y = system(h, n, mask)
        views = {
            'all-boundary': basis.get_dofs(),
            'left': basis.get_dofs('left'),
            'dict': basis.get_dofs({'left', 'top'}) if False else {'left': basis.get_dofs('left'), 'top': basis.get_dofs('top')},
            'nodal-only': basis.get_dofs('left').keep('u') if ename == 'P1' else basis.get_dofs('left').drop('u^1'),
        }
        with warnings.catch_warnings():
            warnings.simplefilter('ignore')
            for vn, view in views.items():
                if isinstance(view, dict):
                    D = np.unique(np.concatenate([v.flatten() for v in view.values()]))
                else:
                    D = np.asarray(view.flatten())
                I = np.setdiff1d(np.arange(n), D)
                tag = '%s/%s' % (ename, vn)
                h.sample(dict(element=ename, view=vn, D=D.tolist()))
                check_enforce(h, tag + ':enforce', n, Ad, A, b, x, D, dict(D=view))
                check_condense(h, tag + ':condense', n, Ad, A, b, x, y, D, I, dict(D=view))
                if not isinstance(view, dict):
                    check_condense(h, tag + ':condense-I', n, Ad, A, b, x, y, D, I, dict(I=basis.complement_dofs(view)))


def stub_selfcheck_config(h, n):
    rng = np.random.RandomState(h.seed + 1)
    masks = [np.array(bits, dtype=bool).reshape(n, n) for bits in itertools.product([0, 1], repeat=n * n)]
    if n == 3:
        masks = masks[::5]
    ncmp, bad = selfcheck(masks, rng)
    h.concrete('SymCSR==scipy on %d call sequences' % ncmp, not bad, str(bad[:3]))
    h.sample(dict(stub_selfcheck_comparisons=ncmp, mismatches=len(bad)))
    # make the run count one solver obligation so that an empty selfcheck cannot pass silently
    t = h.sym('t', ())
    h.zero('trivial', t - t)


def all_patterns(n):
    return list(itertools.product([0, 1], repeat=n * n))


def build_configs(tier, seed):
    cfgs = [dict(name='stub-selfcheck/n=2', fn=stub_selfcheck_config, kw=dict(n=2), opts=dict(no_proxy=True)),
            dict(name='stub-selfcheck/n=3', fn=stub_selfcheck_config, kw=dict(n=3), opts=dict(no_proxy=True))]
    forms = ('D', 'I', 'Drev')
    want = ('enforce', 'penalize', 'condense')
    for bits in all_patterns(2):
        cfgs.append(dict(name='n=2/pattern=%s' % ''.join(map(str, bits)), fn=pattern_config,
                         kw=dict(n=2, bits=bits, forms=forms, want=want), opts=dict(no_proxy=True)))
    pats = all_patterns(3)
    if tier == 'quick':
        rng = np.random.RandomState(seed)
        with_empty = [p for p in pats if any(sum(p[3 * i:3 * i + 3]) == 0 for i in range(3)) and sum(p) >= 2]
        no_diag = [p for p in pats if not (p[0] and p[4] and p[8]) and p not in with_empty]
        full = [p for p in pats if p not in with_empty and p not in no_diag]
        sel = [with_empty[i] for i in rng.choice(len(with_empty), 24, replace=False)] + \
              [no_diag[i] for i in rng.choice(len(no_diag), 24, replace=False)] + \
              [full[i] for i in rng.choice(len(full), 14, replace=False)] + [tuple([1] * 9), (1, 1, 0, 0, 0, 0, 1, 1, 1)]
        sel = sorted(set(sel))
    else:
        sel = pats
    for bits in sel:
        cfgs.append(dict(name='n=3/pattern=%s' % ''.join(map(str, bits)), fn=pattern_config,
                         kw=dict(n=3, bits=bits, forms=forms, want=want), opts=dict(no_proxy=True)))
    cfgs.append(dict(name='views/two-triangles', fn=views_config, opts=dict(no_proxy=True, timeout=600)))
    if tier != 'quick':
        rng = np.random.RandomState(seed + 5)
        for k in range(24):
            bits = tuple(int(v) for v in (rng.rand(16) < 0.55))
            cfgs.append(dict(name='n=4/pattern=%s' % ''.join(map(str, bits)), fn=pattern_config,
                             kw=dict(n=4, bits=bits, forms=('D', 'Drev'), want=want), opts=dict(no_proxy=True, timeout=2400)))
    return cfgs


META = dict(
    explanation='The real enforce/penalize/condense/solve run on a sparse matrix whose every STORED entry is a symbolic real '
                '(pattern concrete and enumerated, incl. empty rows, empty diagonals, explicit zeros as values). z3 decides, '
                'for all values: enforce rows = diag*e_i / others untouched / rhs = x on D; penalize only touches diag[D], b[D]; '
                'condense = A[I][:,I], b[I]-A[I,D]x[D]; and the implication "y solves the condensed system => the expanded z '
                'satisfies the original equations on I and equals x on D" with the linear solver stubbed as ANY y.',
    symbolic='stored matrix values, b, x, matrix rhs, diag, epsilon, solver output y / eigenvectors X',
    bounds=dict(sizes='n=2 all 16 patterns; n=3: 64 patterns quick (all 512 thorough); n=4: 24 random patterns (thorough); '
                      'DofsView/dict forms on a real 2-triangle P1/P2 basis',
                index_sets='all subsets D (incl. empty and full), given as D, as I, and D in reversed order'),
    outside=['default epsilon of penalize when no diagonal entry of the constrained rows is stored (division by zero) and for n = 3', 'dtype promotion (integer or complex operands: every array is an object array of reals here)', 'LAPACK/SuperLU/ARPACK numerical solvers (stubbed as "any solution")',
             'mpc', 'float rounding'],
    stubs=['linear solver -> returns symbolic y constrained only by "Aout y = bout"', 'eigen solver -> returns symbolic (L, X)'],
    assumptions=['SymCSR mirrors scipy.sparse.csr_matrix for copy/diagonal/setdiag/row+column fancy indexing/@/+ (validated differentially against scipy on every run)'],
    design_ref='DESIGN.md 4/C05',
)

if __name__ == '__main__':
    sys.exit(harness.main('C05', 'checks.c05', build_configs, META))
