#!/bin/bash
# maintenance: which lines of skfem do the quick checks execute at all?  (coverage.py from /venv; data under $COVDIR, default /tmp/cov)
# usage: tools/coverage_of_checks.sh [tier] [ids...]   ->  $COVDIR/report.txt
TIER="${1:-quick}"; shift
IDS="${@:-C01 C02 C03 C04 C05 C06 C07 C08 C09 C10 C12 C13 C14 C15 C16 C18 C19 C20}"
COVDIR="${COVDIR:-/tmp/cov}"
mkdir -p $COVDIR; rm -f $COVDIR/.coverage*
cat > $COVDIR/.coveragerc <<EOF
[run]
source = ${VERIF_REPO:-/repo}/skfem
parallel = True
concurrency = multiprocessing
data_file = $COVDIR/.coverage
EOF
cd "$(dirname "$0")/.."
./setup.sh >/dev/null 2>&1
for id in $IDS; do
  lc=$(echo $id | tr 'C' 'c')
  env PYTHONPATH=${VERIF_REPO:-/repo}:/verif SKFEM_VERIF=1 OMP_NUM_THREADS=1 COVERAGE_RCFILE=$COVDIR/.coveragerc \
      .venv/bin/python -m coverage run -m checks.$lc $TIER --no-evidence --jobs ${JOBS:-8} > $COVDIR/run_$id.log 2>&1
  echo "$id done rc=$?"
done
cd $COVDIR
COVERAGE_RCFILE=$COVDIR/.coveragerc /verif/.venv/bin/python -m coverage combine -q
COVERAGE_RCFILE=$COVDIR/.coveragerc /verif/.venv/bin/python -m coverage report -m --skip-empty > $COVDIR/report.txt 2>&1
tail -3 $COVDIR/report.txt
