"""C19 - vector, composite and block structures agree with their components.

Symbolic: vertex coordinates, coefficient vector, (through them) all local matrices.
Real code: ElementVector.gbasis, ElementComposite._deduce_bfun/gbasis, AbstractBasis.split_indices/split_bases/split/interpolate,
asm over lists of bases, COOData.__add__/tolocal/fromlocal/inverse/dot, Form.block.
"""
import itertools
import sys
import warnings

import numpy as np

from engine import harness
from engine.harness import Skip
from engine.sym import Sym, tosym
from engine.zoo import make_mesh
from checks.c09 import make_elem


def dense_from_coo(h, coo, shape=None):
    idx, data = np.asarray(coo.indices), coo.data
    shp = tuple(int(x) for x in (shape or coo.shape))
    A = np.zeros(shp, dtype=object if h.sym_mode else float)
    if len(shp) == 2:
        for r, c, d in zip(idx[0], idx[1], data):
            A[r, c] = A[r, c] + d
    else:
        for r, d in zip(idx[0], data):
            A[r] = A[r] + d
    return A


def _flat(df):
    """sum of all entries of the value (per cell and point) and of the gradient if present"""
    v = np.asarray(df.value)
    while v.ndim > 2:
        v = v.sum(axis=0)
    g = None
    if df.grad is not None:
        g = np.asarray(df.grad)
        # weight the gradient entries differently so that transposed/misplaced components are seen
        wts = (np.arange(int(np.prod(g.shape[:-2]))) + 2.0).reshape(g.shape[:-2])
        g = np.tensordot(wts, g, axes=(list(range(wts.ndim)), list(range(wts.ndim))))
    return v, g


def pair(a, b):
    va, ga = _flat(a)
    vb, gb = _flat(b)
    out = va * vb
    if ga is not None:
        out = out + ga * vb
    if gb is not None:
        out = out + 3 * va * gb
    return out


COEF = [[2, 3, 5], [7, 11, 13], [17, 19, 23]]


def split_config(h, mesh, spec, free=None, prior=None):
    import skfem as S
    with warnings.catch_warnings():
        warnings.simplefilter('ignore')
        if prior is not None:
            # history: another composite with the same totals of DOFs but a different distribution was used before
            mp = make_mesh(h, mesh, var='q', free='none')
            S.CellBasis(mp, make_elem(prior))
        m = make_mesh(h, mesh, free=free)
        e = make_elem(spec)
        basis = S.CellBasis(m, e)
        N = int(basis.N)
        x = h.sym('x', (N,), nominal=(np.arange(N) * 5 % 7) - 2.5)
        idx = [np.asarray(i) for i in basis.split_indices()]
        nc = len(idx)
        h.sample(dict(mesh=mesh, element=spec, N=N, components=nc, prior=prior))
        allidx = np.concatenate(idx) if nc else np.array([], dtype=int)
        h.concrete('split indices partition the DOF numbers', sorted(allidx.tolist()) == list(range(N)))
        parts = basis.split(x)
        whole = basis.interpolate(x)
        whole = whole if isinstance(whole, tuple) else (whole,)
        is_vec = isinstance(e, S.ElementVector)
        bases = []
        for i, (xi, bi) in enumerate(parts):
            bases.append(bi)
            h.concrete('component %d: split vector has the size of the split basis' % i, len(xi) == bi.N)
            h.concrete('component %d: split vector == x[split_indices]' % i, all((a is b) or (not h.sym_mode and a == b) or
                                                                                    (h.sym_mode and tosym(a).a.eq(tosym(b).a)) for a, b in zip(xi, x[idx[i]])))
            ui = bi.interpolate(xi)
            if is_vec:
                h.equal('component %d: interpolate(split) == component of interpolate(whole)' % i, np.asarray(ui.value), np.asarray(whole[0].value[i]))
                if ui.grad is not None:
                    h.equal('component %d: gradient' % i, np.asarray(ui.grad), np.asarray(whole[0].grad[i]))
            else:
                h.equal('component %d: interpolate(split) == component of interpolate(whole)' % i, np.asarray(ui.value), np.asarray(whole[i].value))
                if ui.grad is not None and whole[i].grad is not None:
                    h.equal('component %d: gradient' % i, np.asarray(ui.grad), np.asarray(whole[i].grad))
                if ui.div is not None and whole[i].div is not None:
                    h.equal('component %d: divergence' % i, np.asarray(ui.div), np.asarray(whole[i].div))
        if is_vec or nc < 2:
            return
        # ---- coupled assembly == block matrix of the separately assembled component forms -------------------------------------
        dt = object if h.sym_mode else np.float64

        def _full(*args):
            us, vs = args[:nc], args[nc:2 * nc]
            tot = 0
            for i in range(nc):
                for j in range(nc):
                    tot = tot + COEF[i][j] * pair(us[j], vs[i])
            return tot
        # Form.block counts the arguments of the integrand: explicit arity
        if nc == 2:
            full = lambda u0, u1, v0, v1, w: _full(u0, u1, v0, v1, w)
        elif nc == 3:
            full = lambda u0, u1, u2, v0, v1, v2, w: _full(u0, u1, u2, v0, v1, v2, w)
        else:
            raise Skip('more than three components')
        F = S.BilinearForm(full, dtype=dt)
        A = dense_from_coo(h, F.elemental(basis))
        for i in range(nc):
            for j in range(nc):
                blk = S.BilinearForm(lambda u, v, w, i=i, j=j: COEF[i][j] * pair(u, v), dtype=dt)
                B = dense_from_coo(h, blk.elemental(bases[j], bases[i]))
                h.equal('block (test %d, trial %d) of the coupled matrix == separately assembled form' % (i, j), A[np.ix_(idx[i], idx[j])], B)
                B2 = dense_from_coo(h, F.block(j, i).elemental(bases[j], bases[i]))
                h.equal('Form.block(%d, %d) == that block' % (j, i), B2, B)
        if h.sym_mode:
            h.canary('canary: block (0,1) equals block (1,0) transposed',
                     A[np.ix_(idx[0], idx[1])] - A[np.ix_(idx[1], idx[0])].T)


def partition_config(h, mesh, spec, free=None):
    """asm(form, [b1, b2, ...]) over every partition of the cells into subsets == asm(form, b)."""
    import skfem as S
    with warnings.catch_warnings():
        warnings.simplefilter('ignore')
        m = make_mesh(h, mesh, free=free)
        e = make_elem(spec)
        dt = object if h.sym_mode else np.float64
        nt = m.t.shape[1]
        basis = S.CellBasis(m, e)
        nc = len(basis.split_indices()) if isinstance(e, S.ElementComposite) else 1

        def form(*args):
            us, vs = args[:nc], args[nc:2 * nc]
            return sum(COEF[i % 3][j % 3] * pair(us[j], vs[i]) for i in range(nc) for j in range(nc)) * args[-1].x[0]
        F = S.BilinearForm(form, dtype=dt)
        A = dense_from_coo(h, F.elemental(basis))
        L = S.LinearForm(lambda *a: sum((k + 2) * _flat(a[k])[0] for k in range(nc)) * a[-1].x[-1], dtype=dt)
        b = dense_from_coo(h, L.elemental(basis))
        h.sample(dict(mesh=mesh, element=spec, cells=int(nt)))
        cells = list(range(nt))

        def partitions(items):
            if not items:
                yield []
                return
            first, rest = items[0], items[1:]
            for p in partitions(rest):
                yield [[first]] + p
                for k in range(len(p)):
                    yield p[:k] + [[first] + p[k]] + p[k + 1:]
        for part in partitions(cells):
            if len(part) < 2:
                continue
            bl = [S.CellBasis(m, e, elements=np.array(sorted(p_), dtype=np.int32)) for p_ in part]
            out = S.asm(F, bl, to=list)
            tot = out[0]
            for c in out[1:]:
                tot = tot + c
            h.equal('bilinear: partition %s' % part, dense_from_coo(h, tot, (basis.N, basis.N)), A)
            outl = S.asm(L, bl, to=list)
            totl = outl[0]
            for c in outl[1:]:
                totl = totl + c
            h.equal('linear: partition %s' % part, dense_from_coo(h, totl, (basis.N,)), b)


def coo_config(h, mesh, trial, test, free=None, inverse=True):
    """Elemental-data conversions: tolocal/fromlocal round trip, cellwise inverse, matrix-vector product, addition."""
    import skfem as S
    with warnings.catch_warnings():
        warnings.simplefilter('ignore')
        m = make_mesh(h, mesh, free=free)
        dt = object if h.sym_mode else np.float64
        ub = S.CellBasis(m, make_elem(trial))
        vb = S.CellBasis(m, make_elem(test), quadrature=ub.quadrature)
        nt = m.t.shape[1]
        F = S.BilinearForm(lambda u, v, w: u * v + 2 * u.grad[0] * v + w.x[0] * u * v.grad[-1], dtype=dt)
        C = F.elemental(ub, vb)
        h.sample(dict(mesh=mesh, trial=trial, test=test, local_shape=list(C.local_shape)))
        loc = C.tolocal()
        h.concrete('tolocal shape == (cells,) + local_shape', np.shape(loc) == (nt,) + tuple(C.local_shape), str(np.shape(loc)))
        # local matrix of cell k, entry (i, j) is the kernel value for test i / trial j as stored in the COO triplets
        A = dense_from_coo(h, C)
        edv, edu = np.asarray(vb.element_dofs), np.asarray(ub.element_dofs)
        if nt == 1 or True:
            # on a one-cell restriction the local matrix scatters to the global one
            for k in range(nt):
                Ck = F.elemental(S.CellBasis(m, make_elem(trial), elements=np.array([k], dtype=np.int32)),
                                 S.CellBasis(m, make_elem(test), elements=np.array([k], dtype=np.int32), quadrature=ub.quadrature))
                Ak = dense_from_coo(h, Ck, (vb.N, ub.N))
                lk = np.asarray(loc[k])
                ok_shape = lk.shape in ((edv.shape[0], edu.shape[0]), (edu.shape[0], edv.shape[0]))
                for i in range(edv.shape[0]):
                    for j in range(edu.shape[0]):
                        # tolocal()[k][j, i]: trial function j, test function i (the layout of the elemental data)
                        h.zero('cell %d: tolocal[trial %d, test %d] scatters to the global entry' % (k, j, i), lk[j, i] - Ak[edv[i, k], edu[j, k]]
                               if len({(edv[a, k], edu[b, k]) for a in range(edv.shape[0]) for b in range(edu.shape[0])}) == edv.shape[0] * edu.shape[0] else 0 * lk[i, j])
        back = C.fromlocal(loc)
        h.equal('fromlocal(tolocal(C)).data == C.data', np.asarray(back.data), np.asarray(C.data))
        h.concrete('fromlocal keeps indices and shapes', np.array_equal(back.indices, C.indices) and tuple(back.shape) == tuple(C.shape))
        x = h.sym('x', (ub.N,), nominal=(np.arange(ub.N) * 3 % 5) - 1.5)
        if ub.N == vb.N:
            y = C.dot(x)
            h.equal('C.dot(x) == dense(C) @ x', np.asarray(y), np.array([sum(A[i, j] * x[j] for j in range(ub.N)) for i in range(vb.N)],
                                                                      dtype=object if h.sym_mode else float))
            Dk = np.array([int(ub.N) - 1, 0])
            snapx = np.array(x, copy=True)
            yD = C.dot(x, D=Dk)
            h.equal('C.dot(x, D) == dense(C) @ x off D, == x on D', np.asarray(yD),
                    np.array([x[i] if i in (int(ub.N) - 1, 0) else sum(A[i, j] * x[j] for j in range(ub.N)) for i in range(vb.N)],
                             dtype=object if h.sym_mode else float))
            h.concrete('dot leaves its operand unchanged', all((a is b_) or (not h.sym_mode and a == b_) for a, b_ in zip(np.asarray(x).ravel(), snapx.ravel())))
        C2 = S.BilinearForm(lambda u, v, w: 5 * u * v.grad[0], dtype=dt).elemental(ub, vb)
        S_ = C + C2
        h.equal('(C1 + C2) dense == C1 dense + C2 dense', dense_from_coo(h, S_, (vb.N, ub.N)), A + dense_from_coo(h, C2))
        if inverse and C.local_shape[0] == C.local_shape[1]:
            Ci = C.inverse()
            li = Ci.tolocal()
            n = C.local_shape[0]
            for k in range(nt):
                P = np.array([[sum(li[k][i, a] * loc[k][a, j] for a in range(n)) for j in range(n)] for i in range(n)],
                             dtype=object if h.sym_mode else float)
                h.equal('cell %d: tolocal(C.inverse()) @ tolocal(C) == I' % k, P, np.eye(n) + 0 * P)
            if h.sym_mode and n > 1:
                h.canary('canary: inverse of the transposed local matrix', np.array(
                    [sum(li[0][0, a] * loc[0][0, a] for a in range(n)) - 1], dtype=object))


def composite_basis_config(h, mesh, specs, equal_dofnum=False, kind='cell'):
    """CompositeBasis of 2-3 component bases (b1 * b2, b1 @ b2 and the constructor): the coupled form assembled on the composite
    basis == the block matrix of the separately assembled component forms under the documented numbering (components one after the
    other; shared numbers for equal_dofnum), interpolate/split == per-component slices."""
    import skfem as S
    from skfem.assembly.basis.composite_basis import CompositeBasis
    with warnings.catch_warnings():
        warnings.simplefilter('ignore')
        m = make_mesh(h, mesh, free=[3] if mesh == 'tri2' else None)
        dt = object if h.sym_mode else np.float64
        mk = (lambda e: S.CellBasis(m, e, intorder=3)) if kind == 'cell' else (lambda e: S.FacetBasis(m, e, intorder=3))
        bases = [mk(make_elem(sp)) for sp in specs]
        M = len(bases)
        if M == 2 and not equal_dofnum:
            cb = bases[0] * bases[1]
        elif M == 2:
            cb = bases[0] @ bases[1]
        else:
            cb = CompositeBasis(*bases, equal_dofnum=equal_dofnum)
        Ns = [int(b.N) for b in bases]
        off = [0] * M if equal_dofnum else [int(sum(Ns[:i])) for i in range(M)]
        N = Ns[0] if equal_dofnum else int(sum(Ns))
        h.concrete('N of the composite basis', int(cb.N) == N, '%s vs %s' % (cb.N, N))
        h.sample(dict(mesh=mesh, components=list(specs), equal_dofnum=equal_dofnum, basis=kind, N=Ns))
        coef = [[(i + 1) * (3 * j + 1) + (0.5 if i == j else 0.0) for j in range(M)] for i in range(M)]

        def coupled(*args):
            us, vs = args[:M], args[M:2 * M]
            out = 0
            for i in range(M):
                for j in range(M):
                    out = out + coef[i][j] * us[j] * vs[i].grad[0] + (i + 2 * j + 1) * us[j] * vs[i]
            return out
        (rows, cols), data, shape, _ = S.BilinearForm(coupled, dtype=dt)._assemble(cb)
        h.concrete('shape of the coupled matrix', tuple(int(x) for x in shape) == (N, N), str(shape))
        K = np.zeros((N, N), dtype=dt)
        for r, c, d in zip(rows, cols, data):
            K[r, c] = K[r, c] + d
        B = np.zeros((N, N), dtype=dt)
        for i in range(M):
            for j in range(M):
                f = (lambda ci, a: (lambda u, v, w: ci * u * v.grad[0] + a * u * v))(coef[i][j], i + 2 * j + 1)
                (r2, c2), d2, _, _ = S.BilinearForm(f, dtype=dt)._assemble(bases[j], bases[i])
                for r, c, d in zip(r2, c2, d2):
                    B[off[i] + r, off[j] + c] = B[off[i] + r, off[j] + c] + d
        h.equal('coupled matrix on the composite basis == block matrix of the component forms', K, B)
        # load vector
        lin = lambda *args: sum((i + 1) * args[i] + args[i].grad[0] * (2 - i) for i in range(M))
        o = S.LinearForm(lin, dtype=dt)._assemble(cb)
        bvec = np.zeros(N, dtype=dt)
        for r, d in zip(np.asarray(o[0]).reshape(-1), o[1]):
            bvec[r] = bvec[r] + d
        want = np.zeros(N, dtype=dt)
        for i in range(M):
            o2 = S.LinearForm((lambda i_: (lambda v, w: (i_ + 1) * v + v.grad[0] * (2 - i_)))(i), dtype=dt)._assemble(bases[i])
            for r, d in zip(np.asarray(o2[0]).reshape(-1), o2[1]):
                want[off[i] + r] = want[off[i] + r] + d
        h.equal('load vector on the composite basis == stacked component vectors', bvec, want)
        if not equal_dofnum:
            x = h.sym('x', (N,), nominal=(np.arange(N) * 5 % 7) - 2.5)
            whole = cb.interpolate(x)
            parts = cb.split(x)
            h.concrete('split returns one (vector, basis) pair per component', len(parts) == M and all(p[1] is b for p, b in zip(parts, bases)))
            for i in range(M):
                sl = x[off[i]:off[i] + Ns[i]]
                h.concrete('component %d: split slice is the documented one' % i, np.shape(parts[i][0]) == (Ns[i],) and
                           all((a is b_) or (not h.sym_mode and a == b_) for a, b_ in zip(np.asarray(parts[i][0]).ravel(), np.asarray(sl).ravel())))
                h.equal('component %d: interpolate(whole) == interpolate(component slice)' % i, np.asarray(whole[i].value), np.asarray(bases[i].interpolate(sl).value))


def build_configs(tier, seed):
    quick = tier == 'quick'
    cfgs = []

    def add(name, fn, **kw):
        opts = dict(timeout=kw.pop('timeout', 500 if quick else 2400))
        cfgs.append(dict(name=name, fn=fn, kw=kw, opts=opts))
    tri = ['ElementVector(ElementTriP2())', 'ElementComposite(ElementTriP1(), ElementTriP1())', 'ElementComposite(ElementTriP2(), ElementTriP1())',
           'ElementComposite(ElementTriP2(), ElementTriP0())', 'ElementComposite(ElementTriRT1(), ElementTriP0())',
           'ElementComposite(ElementTriN1(), ElementTriP1())', 'ElementComposite(ElementTriP1(), ElementTriN1())',
           'ElementComposite(ElementVector(ElementTriMini()), ElementTriP1())'] + \
          ([] if quick else ['ElementComposite(ElementVector(ElementTriP2()), ElementTriP1())', 'ElementComposite(ElementTriP1(), ElementTriP2())',
                             'ElementComposite(ElementTriP2(), ElementTriP1(), ElementTriP0())', 'ElementVector(ElementTriP1(), 3)'])
    for spec in tri:
        # index plumbing does not depend on the geometry: one free vertex (quick), all symbolic (thorough)
        add('split/tri2/%s' % spec.replace(' ', ''), split_config, mesh='tri2', spec=spec, free=[3] if quick else None)
    # history: same DOF totals, different distribution over the components
    add('split/tri2/P1xN1-after-N1xP1', split_config, mesh='tri2', spec='ElementComposite(ElementTriP1(), ElementTriN1())',
        prior='ElementComposite(ElementTriN1(), ElementTriP1())', free=[3])
    add('split/tri2/P1xP2-after-P2xP1', split_config, mesh='tri2', spec='ElementComposite(ElementTriP1(), ElementTriP2())',
        prior='ElementComposite(ElementTriP2(), ElementTriP1())', free=[3])
    add('split/quad2/Q2xQ1', split_config, mesh='quad2', spec='ElementComposite(ElementQuad2(), ElementQuad1())', free='none' if quick else [2])
    add('split/line3perm/P2xP1', split_config, mesh='line3perm', spec='ElementComposite(ElementLineP2(), ElementLineP1())')
    # 3-D: edge DOFs in components after the first
    tet = ['ElementComposite(ElementTetP2(), ElementTetP2())', 'ElementComposite(ElementTetN1(), ElementTetP2())',
           'ElementComposite(ElementVector(ElementTetP2()), ElementTetP1())', 'ElementComposite(ElementTetRT1(), ElementTetP0())'] + \
          ([] if quick else ['ElementComposite(ElementTetRT1(), ElementTetN1(), ElementTetP2())', 'ElementVector(ElementTetP2())'])
    for spec in tet:
        add('split/tet1/%s' % spec.replace(' ', ''), split_config, mesh='tet1', spec=spec, free='none' if quick else [3], timeout=900 if quick else 1500)
    if not quick:
        add('split/hex1/HexS2xHex1', split_config, mesh='hex1', spec='ElementComposite(ElementHexS2(), ElementHex1())', free='none', timeout=900 if quick else 1500)
    # CompositeBasis objects (b1 * b2, b1 @ b2, constructor with three bases)
    for mesh, specs, eq, kind in [('tri2', ('ElementTriP2', 'ElementTriP1'), False, 'cell'), ('tri2', ('ElementTriP1', 'ElementTriP0', 'ElementTriP2'), False, 'cell'),
                                  ('tri2', ('ElementTriP1', 'ElementTriP1'), True, 'cell'), ('line3perm', ('ElementLineP1', 'ElementLineP2', 'ElementLineP1'), False, 'cell'),
                                  ('tri2', ('ElementTriP1', 'ElementTriCR', 'ElementTriP0'), False, 'facet'),
                                  ('line3perm', ('ElementLineP2', 'ElementLineP2', 'ElementLineP2'), True, 'cell')]:
        add('composite-basis/%s/%s%s/%s' % (mesh, 'x'.join(specs), '/equal_dofnum' if eq else '', kind), composite_basis_config, mesh=mesh, specs=specs,
            equal_dofnum=eq, kind=kind)
    # partitions of the cells
    add('partition/tri3fan/ElementTriP2', partition_config, mesh='tri3fan', spec='ElementTriP2')
    add('partition/tri3fan/P2xP1', partition_config, mesh='tri3fan', spec='ElementComposite(ElementTriP2(), ElementTriP1())', free='none' if quick else [1, 4])
    add('partition/line3perm/ElementLineP2', partition_config, mesh='line3perm', spec='ElementLineP2')
    if not quick:
        add('partition/tri4patch/ElementTriP1', partition_config, mesh='tri4patch', spec='ElementTriP1')
        add('partition/tet2/ElementTetP1', partition_config, mesh='tet2', spec='ElementTetP1')
    # elemental data
    for mesh, tr, te in [('tri2', 'ElementTriP1', 'ElementTriP1'), ('tri2', 'ElementTriP2', 'ElementTriP1'), ('tri2', 'ElementTriP1', 'ElementTriP2'),
                         ('line3perm', 'ElementLineP1', 'ElementLineP1'), ('line3perm', 'ElementLineP2', 'ElementLineP1'),
                         ('quad2', 'ElementQuad1', 'ElementQuad1'), ('tet2', 'ElementTetP1', 'ElementTetP1')]:
        add('coo/%s/%s-%s' % (mesh, tr, te), coo_config, mesh=mesh, trial=tr, test=te, free=(('none' if quick else [2]) if mesh == 'quad2' else ([0] if mesh == 'tet2' else None)),
            timeout=900 if quick else 1500)
    add('coo/tri2/ElementTriP0-ElementTriP0', coo_config, mesh='tri2', trial='ElementTriP0', test='ElementTriP0')
    return cfgs


META = dict(
    explanation='Real split/split_indices/split_bases/interpolate on vector and composite elements with symbolic geometry and coefficients: '
                'interpolating each split part equals the component of interpolating the whole (values, gradients, divergences); the coupled '
                'matrix restricted to split_indices equals the separately assembled component form, also through Form.block; asm over every '
                'partition of the cells equals assembly over the whole mesh (COOData.__add__); tolocal/fromlocal round trip, local matrices '
                'scatter to the right global entries, tolocal(C.inverse()) @ tolocal(C) == I, C.dot(x) == dense @ x, (C1+C2) == sum.',
    symbolic='vertex coordinates, coefficient vectors',
    bounds=dict(elements='see configuration names (2-D and 3-D composites with edge/facet/interior DOFs in different components, vectors)',
                meshes='1-3 cells; tets one free vertex; hexahedron numeric', partitions='ALL partitions of a 3-cell mesh'),
    outside=['utils.bmat and toarray/tocsr (scipy, float only: exercised in replay only)', 'trilinear forms', 'COOData.solve'],
    stubs=['np.linalg.inv on object arrays -> exact cofactor inverse (the inverse SERVICE is trusted; the reshape/moveaxis plumbing is what is verified)'],
    assumptions=['mesh validity'],
    design_ref='DESIGN.md 4/C19',
)

if __name__ == '__main__':
    sys.exit(harness.main('C19', 'checks.c19', build_configs, META))
