"""C13 - adaptive refinement: conforming, domain-preserving for every marked set.

Symbolic: vertex coordinates (every longest-edge comparison forks; root atoms are compared through their radicands), the error
estimator values of adaptive_theta.
Real code: MeshTri1._adaptive_sort_mesh/_adaptive_find_facets/_adaptive_split_elements/_adaptive, MeshTet1._adaptive_sort_mesh/
_find_nz/_adaptive, MeshLine1._adaptive, Mesh.refined, utils.adaptive_theta.
Goals per path: those of C12 (checks.c12.analyse) + every marked cell has >= 2 children + named subdomains = descendants of the tagged cells.
"""
import itertools
import sys
import warnings

import numpy as np

from engine import harness
from engine.sym import Sym, tosym
from engine.zoo import make_mesh, topo
from checks.c12 import analyse
from checks.c03 import renumbered


def _names(h, m):
    return [tosym(x).a.decl().name() for x in m.doflocs.ravel() if tosym(x).c is None] if h.sym_mode else []


def _install_unique_stub(h):
    """np.unique(axis=...) has no meaning on symbolic coordinates: the tetrahedral refiner only uses it inside an assert on the
    number of distinct points; distinctness is an obligation of its own (weights pairwise different)."""
    import importlib
    from engine import symnp
    if not h.sym_mode:
        return
    h.stub('np.unique(object array, axis=0) inside MeshTet1._adaptive -> identity (the assert on distinct points is replaced by the '
           'obligation "no duplicate vertices")')
    P = symnp.NPProxy

    def unique(self, a, *args, **kw):
        a_ = np.asarray(a)
        if a_.dtype == object and kw.get('axis') is not None:
            return a_
        return np.unique(a, *args, **kw)
    P.unique = unique
    # MeshTet1._find_nz is pure integer incidence algebra on scipy.sparse: it runs as shipped (plain NumPy)
    mt = importlib.import_module('skfem.mesh.mesh_tet_1')
    if not getattr(mt.MeshTet1._find_nz, '_verif', False):
        orig = mt.MeshTet1._find_nz
        from engine import stubs_misc

        def _find_nz(self, *a, **k):
            with stubs_misc.plain_numpy():
                return orig(self, *a, **k)
        _find_nz._verif = True
        mt.MeshTet1._find_nz = _find_nz


def adaptive_config(h, mesh, marked, pt=None, free=None, sub=None, bnd=None, history=None, cls=None):
    with warnings.catch_warnings():
        warnings.simplefilter('ignore')
        _install_unique_stub(h)
        # `free`: ALL coordinates stay symbolic (they are the tracers from which the refinement weights are read); the vertices
        # not listed are confined to a box of half-width 1/16 around their nominal position, which bounds the number of edge orderings
        m = make_mesh(h, mesh, pt=pt, free=None)
        if free is not None and h.sym_mode:
            from fractions import Fraction
            nom = (topo(mesh)[1] if pt is None else pt[1])
            P = m.doflocs
            for v in range(P.shape[1]):
                if v in free:
                    continue
                for d in range(P.shape[0]):
                    c0 = Fraction(float(nom[d, v]))
                    h.assume(h.And(P[d, v] > h.frac(c0 - Fraction(1, 16)), P[d, v] < h.frac(c0 + Fraction(1, 16))))
        names = _names(h, m)
        base = type(m)
        m_first = m
        if cls is not None:
            # straight-sided second-order class: refine it, then compare the first-order skeletons
            import skfem as S
            m = getattr(S, cls).from_mesh(m)
        if sub:
            m = m.with_subdomains({n: np.array(v, dtype=np.int32) for n, v in sub.items()})
        if bnd:
            m = m.with_boundaries({n: np.array(v, dtype=np.int32) for n, v in bnd.items()})
        h.sample(dict(mesh=mesh, cells=np.asarray(m.t).T.tolist(), marked=list(map(int, marked)) if marked is not None else None,
                      history=history, subdomains=sub))
        if history is None:
            import logging
            seen = []

            class _Cap(logging.Handler):
                def emit(self, record):
                    seen.append(record.getMessage())
            lg = logging.getLogger('skfem.mesh.mesh')
            old_level, cap = lg.level, _Cap()
            lg.addHandler(cap)
            lg.setLevel(logging.WARNING)
            try:
                M = m.refined(np.array(marked, dtype=np.int32))
            finally:
                lg.removeHandler(cap)
                lg.setLevel(old_level)
            h.concrete('same mesh class', type(M) is type(m))
            if cls is not None:
                # from_mesh keeps vertex and cell numbering: the first-order mesh itself is the coarse skeleton
                sk0, sk1 = m_first, base.from_mesh(M)
                if sub and M.subdomains is not None:
                    sk0 = sk0.with_subdomains({n: np.array(v, dtype=np.int32) for n, v in sub.items()})
                    sk1 = sk1.with_subdomains({n: np.asarray(v) for n, v in M.subdomains.items()})
                # the second-order classes refine through their first-order skeleton; names are either carried (then checked by
                # analyse) or dropped as a whole with the library's "invalidated" warning - never kept stale
                carried = M.subdomains is not None and sorted(M.subdomains) == sorted(sub or {})
                dropped = M.subdomains is None       # (the library logs "Named subdomains invalidated"; the wording is not demanded)
                h.concrete('named subdomains are carried, or dropped as a whole (never kept stale)', (not sub) or carried or dropped,
                           'subdomains=%s warnings=%s' % (None if M.subdomains is None else sorted(M.subdomains), seen))
                h.note('subdomains after refinement: %s' % ('carried' if carried else 'dropped with warning' if dropped else 'other'))
                m, M = sk0, sk1
            analyse(h, 'marked=%s' % ','.join(map(str, marked)), m, M, 1, names, marked=list(marked))
        else:
            M = m
            for step in history:
                if step == 'u':
                    M = M.refined(1)
                elif step == 'u2':
                    M = M.refined(2)             # two uniform passes in one call
                else:
                    sel = [c for c in step if c < M.t.shape[1]]
                    M = M.refined(np.array(sel, dtype=np.int32))
            analyse(h, 'history=%s' % history, m, M, 1, names, marked=[])


def theta_config(h, n, theta):
    """adaptive_theta returns exactly the cells whose estimator exceeds theta * max(estimator)."""
    from skfem.utils import adaptive_theta
    est = h.sym('est', (n,), nominal=np.array([0.9, 0.2, 0.55, 0.47, 0.1, 0.75])[:n])
    if h.sym_mode:
        for i in range(n):
            h.assume(est[i] > 0)
    h.sample(dict(n=n, theta=theta))
    sel = set(int(i) for i in np.asarray(adaptive_theta(est, theta=theta)))
    # on this path: i selected <=> est_i > theta * est_j for ALL j (i.e. > theta * max)
    th = h.frac(*theta.as_integer_ratio()) if isinstance(theta, float) else theta
    for i in range(n):
        above = h.And(*[est[i] > th * est[j] for j in range(n)])
        h.valid('cell %d %s selected on this path' % (i, 'is' if i in sel else 'is not'), above if i in sel else h.Not(above))
    h.concrete('the cell with the largest estimator is always selected', len(sel) >= 1)


def subsets(n):
    return [list(c) for r in range(1, n + 1) for c in itertools.combinations(range(n), r)]


def build_configs(tier, seed):
    quick = tier == 'quick'
    cfgs = []

    def add(name, fn=adaptive_config, **kw):
        opts = dict(timeout=kw.pop('timeout', 600 if quick else 1200), maxpaths=kw.pop('maxpaths', 128 if quick else 2048),
                    feas_ms=(1500, 3000) if quick else (3000, 20000), follow_nominal=kw.pop('nominal_path', False))
        cfgs.append(dict(name=name, fn=fn, kw=kw, opts=opts))
    # lines: every marked subset of a 3-cell mesh, two numberings, subdomains on every cell subset
    sub3 = {'s%d' % i: s for i, s in enumerate(subsets(3))}
    for mesh in ('line3', 'line3perm'):
        # marked sets in every ORDER (the refiner must not assume an ascending array)
        for mk in [list(c) for r in range(1, 4) for c in itertools.permutations(range(3), r)]:
            add('%s/marked=%s' % (mesh, ''.join(map(str, mk))), mesh=mesh, marked=mk, sub=sub3, bnd={'ends': [0, 3], 'inner': [1]})
    # triangles: every marked subset of the 2-cell mesh (all coordinates symbolic), two numberings
    sub2 = {'s0': [0], 's1': [1], 's01': [0, 1]}
    for pi, pt in enumerate([None, renumbered('tri2', (2, 0, 3, 1))]):
        for mk in subsets(2) + [[1, 0]]:
            add('tri2/numbering%d/marked=%s' % (pi, ''.join(map(str, mk))), mesh='tri2', pt=pt, marked=mk, sub=sub2, bnd={'b': [0, 1]})
    # 3-4 cell meshes with G(2)/G(4) to bound the number of paths
    for mk in (subsets(3) if not quick else [[0], [1, 2], [0, 1, 2]]):
        add('tri3fan/free=1,4/marked=%s' % ''.join(map(str, mk)), mesh='tri3fan', marked=mk, free=None if quick else [1, 4], nominal_path=quick, sub={'s0': [0], 's12': [1, 2]})
    if not quick:
        for mk in subsets(4)[::2]:
            add('tri4patch/free=4/marked=%s' % ''.join(map(str, mk)), mesh='tri4patch', marked=mk, free=[4], sub={'s0': [0], 's13': [1, 3]})
    # straight-sided second-order triangles
    for mk in ([0], [1], [1, 0]):
        add('MeshTri2/tri2/marked=%s' % ''.join(map(str, mk)), mesh='tri2', marked=mk, cls='MeshTri2', nominal_path=quick, sub={'s0': [0], 's1': [1]})
    # histories on the 2-cell mesh
    for hist in ([[0], [0]], ['u', [1]], [[1], 'u'], [[0], 'u2']) + (() if quick else ([[0, 1], [2]], [[0], [3], [1]])):
        add('tri2/free=0,3/history=%s' % str(hist).replace(' ', ''), mesh='tri2', marked=None, free=None if quick else [0, 3], nominal_path=quick,
            history=hist, sub=sub2, maxpaths=256 if quick else 4096)
    for hist in ([[0], [1]], ['u', [0, 3]], [[2], 'u'], [[1], 'u2']):
        add('line3perm/history=%s' % str(hist).replace(' ', ''), mesh='line3perm', marked=None, history=hist, sub=sub3)
    # tetrahedra: longest-edge bisection with closure; one free vertex bounds the orderings
    for mk in ([[0], [1], [0, 1]]):
        add('tet2/free=4/marked=%s' % ''.join(map(str, mk)), mesh='tet2', marked=mk, free=None if quick else [4], nominal_path=quick, sub={'s0': [0], 's1': [1]}, bnd={'b': [0]},
            timeout=600 if quick else 1200, maxpaths=64 if quick else 1024)
    add('tet1/free=3/marked=0', mesh='tet1', marked=[0], free=None if quick else [3], nominal_path=quick, sub={"s0": [0]}, timeout=600 if quick else 1200)
    if not quick:
        add('tet1/marked=0', mesh='tet1', marked=[0], sub={'s0': [0]}, timeout=1200, maxpaths=1024)
        add('tet2/free=4/history', mesh='tet2', marked=None, free=[4], history=[[0], [1]], sub={"s0": [0]}, timeout=1200)
    # adaptive_theta
    for n in (3, 4) if quick else (3, 4, 5):
        for theta in (0.5, 0.25):
            add('theta/n=%d/theta=%s' % (n, theta), fn=theta_config, n=n, theta=theta)
    return cfgs


META = dict(
    explanation='The real adaptive refiners run on meshes with symbolic vertex coordinates; every longest-edge comparison forks and each feasible '
                'path is explored (feasibility by witness / abstraction / nlsat).  On every path the obligations of C12 are decided for all '
                'geometries of that path: new vertices are constant convex combinations, each new cell lies in exactly one old cell, children keep '
                'the parent\'s orientation and their measures add up, boundary facets stay in boundary facets (conformity), distinct vertices, '
                'every marked cell is subdivided, named subdomains are exactly the descendants of the tagged cells.  adaptive_theta: on each '
                'path the solver proves that exactly the returned cells exceed theta * max.',
    symbolic='vertex coordinates (all, or 1-2 free vertices on the larger meshes), estimator values',
    bounds=dict(marked='EVERY non-empty marked subset of 2-cell (triangle) and 3-cell (line) meshes; 3 (thorough all) subsets of a 3-cell fan with two free vertices',
                tets='two tetrahedra / one tetrahedron with ONE free vertex (thorough: one fully symbolic tetrahedron)',
                histories='adaptive;adaptive, uniform;adaptive, adaptive;uniform', paths='<= 128 per configuration (thorough 2048); overruns are reported'),
    outside=['fully symbolic multi-tetrahedron meshes', 'second-order classes', 'longer histories'],
    stubs=[],
    assumptions=['mesh validity', 'np.random.seed(1337)/np.random.random inside MeshTet1._adaptive_sort_mesh is deterministic and runs unmodified'],
    design_ref='DESIGN.md 4/C13',
)

if __name__ == '__main__':
    sys.exit(harness.main('C13', 'checks.c13', build_configs, META))
