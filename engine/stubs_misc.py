"""Small run-time adapters installed around the library in symbolic mode (each is listed in the evidence).

exact_quadrature : skfem.assembly.basis.abstract_basis.get_quadrature returns the SAME tables, lifted to exact rationals in
                   object arrays, so that reference basis values are computed in exact arithmetic from the start (otherwise
                   products of float basis values are rounded in float64 before they meet a symbol and bilinearity only holds
                   to 1e-17 - observed on the Stokes mass block).
invF_float_fold  : MappingIsoparametric.invF on fully NUMERIC input (numeric geometry and points) is executed by the real float64
                   code (its Newton iteration only converges in the limit; in exact rationals the iterates explode to thousands
                   of digits) and the result is lifted.  Symbolic input still runs the real Newton loop symbolically.
hash_tobytes     : object arrays have no meaningful ``tobytes``; MappingIsoparametric caches on hash_args(bytes).  The stub gives
                   structural bytes of the flattened terms (shape not included - mirroring the float behaviour).
"""
import sys
import numpy as np

from .sym import Sym, Fr, Ctx, const_arr
from . import symnp

_saved = {}


def _exact_arr(x):
    x = np.asarray(x)
    if x.dtype == object:
        return x
    out = np.empty(x.shape, dtype=object)
    for idx in np.ndindex(*x.shape):
        out[idx] = Sym(c=Fr(float(x[idx])))
    return out


def install_exact_quadrature():
    import importlib
    ab = importlib.import_module("skfem.assembly.basis.abstract_basis")
    if 'gq' in _saved:
        return
    orig = ab.get_quadrature
    _saved['gq'] = orig

    def get_quadrature(*a, **k):
        X, W = orig(*a, **k)
        return _exact_arr(X), _exact_arr(W)
    ab.get_quadrature = get_quadrature


def _all_const(x):
    x = np.asarray(x)
    if x.dtype != object:
        return True
    return all((not isinstance(v, Sym)) or v.c is not None for v in x.ravel())


def _to_float(x):
    x = np.asarray(x)
    if x.dtype != object:
        return x
    return np.array([float(v) for v in x.ravel()], dtype=float).reshape(x.shape)


def install_invF_float_fold():
    import dataclasses
    import importlib
    mi = importlib.import_module("skfem.mapping.mapping_isoparametric")
    if 'invF' in _saved:
        return
    orig = mi.MappingIsoparametric.invF
    _saved['invF'] = orig

    def invF(self, x, tind=None, **kw):
        if isinstance(x, np.ndarray) and (x.dtype == object or self.mesh.doflocs.dtype == object) \
                and _all_const(x) and _all_const(self.mesh.doflocs):
            inst = dict(symnp._installed)
            symnp.uninstall()
            try:
                m2 = dataclasses.replace(self.mesh, doflocs=_to_float(self.mesh.doflocs))
                twin = type(self)(m2, self.elem, self.bndelem)
                Y = orig(twin, _to_float(x), tind=tind, **kw)
            finally:
                symnp.install()
            return const_arr(Y)
        return orig(self, x, tind=tind, **kw)
    mi.MappingIsoparametric.invF = invF


def install_hash_tobytes():
    import importlib
    gu = importlib.import_module("skfem.generic_utils")
    if 'hash_args' in _saved:
        return
    orig = gu.hash_args
    _saved['hash_args'] = orig

    def hash_args(*args):
        # the REAL hash_args runs; symbolic arrays are replaced by float surrogates of the same shape whose entries encode the
        # terms (equal terms <-> equal numbers), because ndarray.tobytes() of an object array would hash pointers
        sur = []
        for arg in args:
            if isinstance(arg, np.ndarray) and arg.dtype == object:
                flat = [float(hash((('t', v.a.get_id()) if v.c is None else ('c', v.c)) if isinstance(v, Sym) else ('v', v)) % (2 ** 52))
                        for v in arg.ravel()]
                sur.append(np.array(flat, dtype=np.float64).reshape(arg.shape))
            else:
                sur.append(arg)
        return orig(*sur)
    gu.hash_args = hash_args
    for k, m in list(sys.modules.items()):
        if k.startswith('skfem') and m is not None and getattr(m, 'hash_args', None) is orig:
            m.hash_args = hash_args


def install_all():
    install_exact_quadrature()
    install_invF_float_fold()
    install_hash_tobytes()
    return ['hash_args: symbolic arrays are replaced by float surrogate arrays of the same shape encoding the terms; the real hash_args then runs',
            'get_quadrature -> same tables lifted to exact rationals (object arrays)',
            'MappingIsoparametric.invF on fully numeric input -> executed in float64, result lifted']


class plain_numpy:
    """Context manager: run the library as shipped (float64 NumPy, no proxy, no adapters) inside a symbolic configuration."""

    def __enter__(self):
        import importlib
        self._inst = dict(symnp._installed)
        symnp.uninstall()
        self._had = dict(_saved)
        if 'gq' in _saved:
            importlib.import_module('skfem.assembly.basis.abstract_basis').get_quadrature = _saved['gq']
        if 'invF' in _saved:
            importlib.import_module('skfem.mapping.mapping_isoparametric').MappingIsoparametric.invF = _saved['invF']
        if 'hash_args' in _saved:
            cur = importlib.import_module('skfem.generic_utils').hash_args
            for k, m in list(sys.modules.items()):
                if k.startswith('skfem') and m is not None and getattr(m, 'hash_args', None) is cur:
                    m.hash_args = _saved['hash_args']
        _saved.clear()
        return self

    def __exit__(self, *a):
        if self._inst:
            symnp.install()
        if 'gq' in self._had:
            install_exact_quadrature()
        if 'invF' in self._had:
            install_invF_float_fold()
        if 'hash_args' in self._had:
            install_hash_tobytes()
        return False
