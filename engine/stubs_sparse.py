"""SymCSR: a CSR container with object ``data`` and concrete ``indptr/indices`` implementing exactly the
scipy.sparse API used by skfem.utils (DESIGN 2.3).  scipy.sparse rejects object dtype, so this stub stands in
for csr_matrix when matrix VALUES are symbolic.  It is validated differentially against scipy on every run
(``selfcheck``): same call sequence on float data must give the same values and the same stored pattern."""
import numpy as np
import scipy.sparse as sp
from scipy.sparse import spmatrix


class SymCSR(spmatrix):
    format = 'csr'

    def __init__(self, data, indices, indptr, shape):
        self.data = np.array(data, dtype=object)
        self.indices = np.array(indices, dtype=np.int32)
        self.indptr = np.array(indptr, dtype=np.int32)
        self._shape = tuple(int(s) for s in shape)

    shape = property(lambda s: s._shape)
    dtype = property(lambda s: np.dtype(object))
    ndim = 2
    nnz = property(lambda s: int(s.indptr[-1]))

    # ---- construction helpers ---------------------------------------------------------------------
    @staticmethod
    def fromdense(D, mask):
        n, m = mask.shape
        data, ind, ptr = [], [], [0]
        for i in range(n):
            for j in range(m):
                if mask[i, j]:
                    data.append(D[i, j])
                    ind.append(j)
            ptr.append(len(data))
        return SymCSR(data, ind, ptr, (n, m))

    def copy(self):
        return SymCSR(self.data.copy(), self.indices.copy(), self.indptr.copy(), self.shape)

    def toarray(self):
        out = np.zeros(self.shape, dtype=object)
        for i in range(self.shape[0]):
            for k in range(self.indptr[i], self.indptr[i + 1]):
                out[i, self.indices[k]] = out[i, self.indices[k]] + self.data[k]
        return out

    todense = toarray

    def mask(self):
        out = np.zeros(self.shape, dtype=bool)
        for i in range(self.shape[0]):
            for k in range(self.indptr[i], self.indptr[i + 1]):
                out[i, self.indices[k]] = True
        return out

    def tocsr(self, copy=False):
        return self.copy() if copy else self

    def diagonal(self, k=0):
        assert k == 0
        D = self.toarray()
        return np.array([D[i, i] for i in range(min(self.shape))], dtype=object)

    def setdiag(self, d, k=0):
        """scipy semantics: stored diagonal entries are overwritten, missing ones are inserted (also zeros)."""
        assert k == 0
        D = self.toarray()
        M = self.mask()
        d = np.asarray(d, dtype=object)
        for i in range(min(self.shape)):
            D[i, i] = d[i] if d.ndim else d[()]
            M[i, i] = True
        n = SymCSR.fromdense(D, M)
        self.data, self.indices, self.indptr = n.data, n.indices, n.indptr

    def __getitem__(self, key):
        D = self.toarray()
        M = self.mask()
        if isinstance(key, tuple):
            r, c = key
        else:
            r, c = key, slice(None)
        if isinstance(r, (int, np.integer)) and isinstance(c, (int, np.integer)):
            return D[r, c]
        r = np.atleast_1d(np.arange(self.shape[0])[r]) if not isinstance(r, slice) else np.arange(self.shape[0])[r]
        c = np.atleast_1d(np.arange(self.shape[1])[c]) if not isinstance(c, slice) else np.arange(self.shape[1])[c]
        Dn = D[np.ix_(r, c)]
        Mn = M[np.ix_(r, c)]
        return SymCSR.fromdense(Dn, Mn)

    def __matmul__(self, x):
        if isinstance(x, SymCSR):
            A, B = self.toarray(), x.toarray()
            MA, MB = self.mask(), x.mask()
            n, m = self.shape[0], x.shape[1]
            D = np.zeros((n, m), dtype=object)
            M = np.zeros((n, m), dtype=bool)
            for i in range(n):
                for j in range(m):
                    for k in range(self.shape[1]):
                        if MA[i, k] and MB[k, j]:
                            D[i, j] = D[i, j] + A[i, k] * B[k, j]
                            M[i, j] = True
            return SymCSR.fromdense(D, M)
        x = np.asarray(x)
        D = self.toarray()
        M = self.mask()
        if x.ndim == 1:
            out = np.zeros(self.shape[0], dtype=object)
            for i in range(self.shape[0]):
                for j in range(self.shape[1]):
                    if M[i, j]:
                        out[i] = out[i] + D[i, j] * x[j]
            return out
        out = np.zeros((self.shape[0], x.shape[1]), dtype=object)
        for i in range(self.shape[0]):
            for j in range(self.shape[1]):
                if M[i, j]:
                    out[i] = out[i] + D[i, j] * x[j]
        return out

    dot = __matmul__

    def __add__(self, o):
        if isinstance(o, SymCSR):
            return SymCSR.fromdense(self.toarray() + o.toarray(), self.mask() | o.mask())
        return NotImplemented

    def __sub__(self, o):
        if isinstance(o, SymCSR):
            return SymCSR.fromdense(self.toarray() - o.toarray(), self.mask() | o.mask())
        return NotImplemented

    def __mul__(self, o):
        if np.isscalar(o) or not hasattr(o, 'shape'):
            return SymCSR(self.data * o, self.indices, self.indptr, self.shape)
        return self.__matmul__(o)

    __rmul__ = __mul__

    @property
    def T(self):
        return SymCSR.fromdense(self.toarray().T, self.mask().T)

    def eliminate_zeros(self):
        pass

    def __repr__(self):
        return '<SymCSR %s nnz=%d>' % (self.shape, self.nnz)


def make_csr(sym_mode, D, mask):
    """Sparse matrix with the given stored pattern: SymCSR (symbolic) or real scipy csr_matrix (float)."""
    if sym_mode:
        return SymCSR.fromdense(D, mask)
    n, m = mask.shape
    data, ind, ptr = [], [], [0]
    for i in range(n):
        for j in range(m):
            if mask[i, j]:
                data.append(float(D[i, j]))
                ind.append(j)
        ptr.append(len(data))
    return sp.csr_matrix((np.array(data, dtype=float), np.array(ind, dtype=np.int32), np.array(ptr, dtype=np.int32)),
                         shape=(n, m))


def pattern_of(A):
    if isinstance(A, SymCSR):
        return A.mask()
    A = sp.csr_matrix(A)
    out = np.zeros(A.shape, dtype=bool)
    for i in range(A.shape[0]):
        out[i, A.indices[A.indptr[i]:A.indptr[i + 1]]] = True
    return out


def selfcheck(masks, rng):
    """Differential validation of the stub against scipy.sparse.csr_matrix on float data.
    Returns (number of comparisons, list of mismatches)."""
    import warnings
    ncmp, bad = 0, []
    for mask in masks:
        n = mask.shape[0]
        V = rng.randint(1, 9, size=mask.shape).astype(float)
        S = SymCSR.fromdense(V.astype(object), mask)
        R = make_csr(False, V, mask)
        idxs = [np.array(ix) for r in range(1, n + 1) for ix in __import__('itertools').combinations(range(n), r)][:7]
        with warnings.catch_warnings():
            warnings.simplefilter('ignore')
            ops = []
            ops.append(('toarray', lambda X: X))
            ops.append(('copy', lambda X: X.copy()))
            for ix in idxs:
                ops.append(('rows%s' % ix, lambda X, ix=ix: X[ix]))
                ops.append(('rowscols%s' % ix, lambda X, ix=ix: X[ix][:, ix[::-1]]))
            ops.append(('setdiag', lambda X: (lambda Y: (Y.setdiag(np.arange(1., n + 1)), Y)[1])(X.copy())))
            ops.append(('setdiag0', lambda X: (lambda Y: (Y.setdiag(np.zeros(n)), Y)[1])(X.copy())))
            ops.append(('add', lambda X: X + X[np.arange(n)[::-1]]))
            ops.append(('matmat', lambda X: X @ X))
            for name, f in ops:
                a, b = f(S), f(R)
                ncmp += 1
                if not (np.array_equal(np.asarray(a.toarray(), dtype=float), b.toarray())):
                    bad.append((name, mask.astype(int).tolist(), 'values'))
                elif name != 'matmat' and name != 'add' and not np.array_equal(pattern_of(a), pattern_of(b)):
                    bad.append((name, mask.astype(int).tolist(), 'pattern'))
            x = rng.randint(1, 5, size=n).astype(float)
            ncmp += 2
            if not np.allclose(np.asarray(S @ x, dtype=float), R @ x):
                bad.append(('matvec', mask.astype(int).tolist(), 'values'))
            if not np.allclose(np.asarray(S.diagonal(), dtype=float), R.diagonal()):
                bad.append(('diagonal', mask.astype(int).tolist(), 'values'))
    return ncmp, bad
