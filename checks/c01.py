"""C01 - assembled matrix, vector and scalar represent the weak form.

Symbolic: vertex coordinates (G2/G3; hexes/wedges/second-order numeric or partly symbolic), coefficient vectors u, v,
a parameter coefficient vector k and a scalar parameter c.
Real code: BilinearForm/LinearForm/Functional._assemble, _kernel, Form._normalize_asm_kwargs, AbstractBasis.interpolate,
CellBasis/FacetBasis/InteriorFacetBasis.__init__, default_parameters, mappings, gbasis, Dofs, COOData.
Goals (identities in all symbols):  v^T A u == sum(form(u_h, v_h, w) dx),  b.v == l(v_h),  Functional == v^T A u.
"""
import sys
import warnings

import numpy as np

from engine import harness
from engine.harness import Skip
from engine.zoo import make_mesh


def _helpers():
    from skfem.helpers import dot, ddot, grad, div, curl, dd, sym_grad, inner
    return dot, ddot, grad, div, curl, dd, sym_grad, inner


# integrands: name -> (form(u, v, w), requirement)
def FORMS():
    dot, ddot, grad, div, curl, dd, sym_grad, inner = _helpers()
    return {
        'mass': (lambda u, v, w: u * v, 'scalar'),
        'nonsym': (lambda u, v, w: u * v.grad[0], 'scalar'),
        'lap': (lambda u, v, w: dot(grad(u), grad(v)), 'scalar'),
        'wx': (lambda u, v, w: w.x[0] * u * v.grad[-1] + w.x[-1] * u.grad[0] * v, 'scalar'),
        'wh': (lambda u, v, w: w.h * u * v, 'scalar'),
        'wn': (lambda u, v, w: dot(w.n, grad(u)) * v, 'scalar-facet'),
        'field': (lambda u, v, w: w.k * u * v.grad[0], 'scalar-k'),
        'gradfield': (lambda u, v, w: dot(grad(w.k), grad(u)) * v, 'scalar-k'),
        'scalarparam': (lambda u, v, w: w.c * u * v.grad[0], 'scalar-c'),
        'vmass': (lambda u, v, w: dot(u, v) + u[0] * v[-1], 'vector'),
        'elast': (lambda u, v, w: ddot(sym_grad(u), sym_grad(v)) + div(u) * v.grad[0, -1], 'vector-grad'),
        'hdiv': (lambda u, v, w: div(u) * div(v) + dot(u, v) + u[0] * div(v), 'hdiv'),
        'hcurl': (lambda u, v, w: dot(curl(u), curl(v)) if np.ndim(curl(u)) > 2 else curl(u) * curl(v) + dot(u, v), 'hcurl'),
        'hess': (lambda u, v, w: ddot(dd(u), dd(v)) + u * v.grad[0], 'hess'),
        'stokes': (lambda u, p, v, q, w: ddot(sym_grad(u), sym_grad(v)) - div(u) * q - div(v) * p + p * q * w.x[0], 'composite-vp'),
        'mixed': (lambda s, u, t, v, w: dot(s, t) + div(s) * v + div(t) * u + u * v * w.x[0], 'composite-hdivp'),
        'ifjump': (lambda u, v, w: u * v + dot(w.n, grad(u)) * v, 'scalar-facet'),
    }


def ELEMENTS():
    import skfem as S
    return {
        # name: (constructor, category, mesh kinds)
        'LineP0': (S.ElementLineP0, 'scalar', ('line',)), 'LineP1': (S.ElementLineP1, 'scalar', ('line',)),
        'LineP2': (S.ElementLineP2, 'scalar', ('line',)), 'LineMini': (S.ElementLineMini, 'scalar', ('line',)),
        'LinePp3': (lambda: S.ElementLinePp(3), 'scalar', ('line',)), 'LineHermite': (S.ElementLineHermite, 'hess', ('line',)),
        'TriP0': (S.ElementTriP0, 'scalar', ('tri',)), 'TriP1': (S.ElementTriP1, 'scalar', ('tri',)),
        'TriP2': (S.ElementTriP2, 'scalar', ('tri',)), 'TriP3': (S.ElementTriP3, 'scalar', ('tri',)),
        'TriP4': (S.ElementTriP4, 'scalar', ('tri',)), 'TriMini': (S.ElementTriMini, 'scalar', ('tri',)),
        'TriCR': (S.ElementTriCR, 'scalar', ('tri',)), 'TriCCR': (S.ElementTriCCR, 'scalar', ('tri',)),
        'TriP2B': (S.ElementTriP2B, 'scalar', ('tri',)),
        'TriDG1': (lambda: S.ElementDG(S.ElementTriP1()), 'scalar', ('tri',)),
        'TriDG2': (lambda: S.ElementDG(S.ElementTriP2()), 'scalar', ('tri',)),
        'TriVecP1': (lambda: S.ElementVector(S.ElementTriP1()), 'vector-grad', ('tri',)),
        'TriVecP2': (lambda: S.ElementVector(S.ElementTriP2()), 'vector-grad', ('tri',)),
        'TriRT0': (S.ElementTriRT0, 'hdiv', ('tri',)), 'TriRT1': (S.ElementTriRT1, 'hdiv', ('tri',)),
        'TriRT2': (S.ElementTriRT2, 'hdiv', ('tri',)), 'TriBDM1': (S.ElementTriBDM1, 'hdiv', ('tri',)),
        'TriN1': (S.ElementTriN1, 'hcurl', ('tri',)), 'TriN2': (S.ElementTriN2, 'hcurl', ('tri',)),
        'TriMorley': (S.ElementTriMorley, 'hess', ('tri',)), 'TriArgyris': (S.ElementTriArgyris, 'hess', ('tri',)),
        'TriHermite': (S.ElementTriHermite, 'hess-nohess', ('tri',)),
        'TriStokes': (lambda: S.ElementVector(S.ElementTriP2()) * S.ElementTriP1(), 'composite-vp', ('tri',)),
        'TriMiniStokes': (lambda: S.ElementVector(S.ElementTriMini()) * S.ElementTriP1(), 'composite-vp', ('tri',)),
        'TriMixed': (lambda: S.ElementTriRT1() * S.ElementTriP0(), 'composite-hdivp', ('tri',)),
        'Quad0': (S.ElementQuad0, 'scalar', ('quad',)), 'Quad1': (S.ElementQuad1, 'scalar', ('quad',)),
        'Quad2': (S.ElementQuad2, 'scalar', ('quad',)), 'QuadS2': (S.ElementQuadS2, 'scalar', ('quad',)),
        'QuadP3': (lambda: S.ElementQuadP(3), 'scalar', ('quad',)),
        'QuadDG1': (lambda: S.ElementDG(S.ElementQuad1()), 'scalar', ('quad',)),
        'QuadRT1': (S.ElementQuadRT1, 'hdiv', ('quad',)),
        'QuadVec1': (lambda: S.ElementVector(S.ElementQuad1()), 'vector-grad', ('quad',)),
        'TetP0': (S.ElementTetP0, 'scalar', ('tet',)), 'TetP1': (S.ElementTetP1, 'scalar', ('tet',)),
        'TetP2': (S.ElementTetP2, 'scalar', ('tet',)), 'TetMini': (S.ElementTetMini, 'scalar', ('tet',)),
        'TetCR': (S.ElementTetCR, 'scalar', ('tet',)),
        'TetRT1': (S.ElementTetRT1, 'hdiv', ('tet',)), 'TetN1': (S.ElementTetN1, 'hcurl', ('tet',)),
        'TetVecP1': (lambda: S.ElementVector(S.ElementTetP1()), 'vector-grad', ('tet',)),
        'Hex1': (S.ElementHex1, 'scalar', ('hex',)), 'Hex0': (S.ElementHex0, 'scalar', ('hex',)),
        'HexS2': (S.ElementHexS2, 'scalar', ('hex',)), 'Hex2': (S.ElementHex2, 'scalar', ('hex',)),
        'HexRT1': (S.ElementHexRT1, 'hdiv', ('hex',)),
        'Wedge1': (S.ElementWedge1, 'scalar', ('wedge',)),
    }


def applicable(form_req, elem_cat, kind):
    facet = kind.startswith('facet') or kind.startswith('ifacet')
    if form_req in ('scalar', 'scalar-k', 'scalar-c'):
        return elem_cat in ('scalar', 'hess', 'hess-nohess')
    if form_req == 'scalar-facet':
        return elem_cat in ('scalar', 'hess', 'hess-nohess') and facet
    if form_req == 'vector':
        return elem_cat in ('vector-grad', 'hdiv', 'hcurl')
    if form_req == 'vector-grad':
        return elem_cat == 'vector-grad'
    if form_req in ('hdiv', 'hcurl', 'hess', 'composite-vp', 'composite-hdivp'):
        return elem_cat == form_req
    return False


def make_basis(h, m, e, kind, quadrature=None, intorder=None):
    import skfem as S
    kw = {}
    if intorder is not None:
        kw['intorder'] = intorder
    if kind == 'cell':
        return S.CellBasis(m, e, **kw)
    if kind.startswith('cell-subset:'):
        el = np.array([int(x) for x in kind.split(':')[1].split(',')], dtype=np.int32)
        return S.CellBasis(m, e, elements=el, **kw)
    if kind == 'facet':
        return S.FacetBasis(m, e, **kw)
    if kind.startswith('facet-subset:'):
        spec = kind.split(':')[1]
        bf = m.boundary_facets()
        fs = bf[[int(x) for x in spec.split(',')]]
        return S.FacetBasis(m, e, facets=fs, **kw)
    if kind.startswith('ifacet-'):
        parts = kind.split('-')
        side = int(parts[1])
        if len(parts) > 2 and parts[2].startswith('subset:'):
            # a subset of the interior facets, given by position in the list of interior facets
            ifac = np.nonzero(np.asarray(m.f2t)[1] != -1)[0]
            fs = ifac[[int(x) for x in parts[2].split(':')[1].split(',')]].astype(np.int32)
            return S.InteriorFacetBasis(m, e, side=side, facets=fs, **kw)
        return S.InteriorFacetBasis(m, e, side=side, **kw)
    raise ValueError(kind)


def _tup(x):
    return x if isinstance(x, tuple) else (x,)


class _SeqThread:
    """Sequential stand-in for threading.Thread in symbolic mode (z3 terms must not be built from concurrent native threads):
    start() only registers the worker; the first join() runs all registered workers in REVERSE start order.  Schedules are C16's
    subject; here the threaded kernel's index bookkeeping is what matters."""
    pending = []

    def __init__(self, target=None, args=(), kwargs=None):
        self.target, self.args, self.kwargs = target, args, kwargs or {}

    def start(self):
        _SeqThread.pending.append(self)

    def join(self, timeout=None):
        todo, _SeqThread.pending = list(reversed(_SeqThread.pending)), []
        for w in todo:
            w.target(*w.args, **w.kwargs)


def weak_config(h, mesh, elem, form, kind, free=None, trial=None, intorder=None, mesh_cls=None, canary=False, nthreads=0, curved=None):
    import skfem as S
    from skfem.assembly.form.form import FormExtraParams
    ctor, cat, _ = ELEMENTS()[elem]
    fn, req = FORMS()[form]
    dt = object if h.sym_mode else np.float64
    with warnings.catch_warnings():
        warnings.simplefilter('ignore')
        if curved is not None:
            from engine.zoo import make_curved
            m = make_curved(h, mesh, curved)       # vertices and mid-side nodes symbolic
            if h.sym_mode:
                # precondition: the curved cell maps are non-degenerate at the quadrature points (own second-order map from the node table)
                import z3
                from skfem.quadrature import get_quadrature
                from checks.c10 import quadratic_weights
                from engine.astdiff import dsym
                from engine.symnp import det_obj
                from engine.sym import Sym, tosym
                Xq, _ = get_quadrature(m.refdom, intorder if intorder is not None else 2 * ctor().maxdeg)
                em, edm, Pm = m.elem(), np.asarray(m.dofs.element_dofs), m.doflocs
                Xql = h.const(np.asarray(Xq, dtype=float))      # lifted exactly as the quadrature adapter lifts them
                Xs = [h.sym('Xc%d' % d, (), nominal=0.3) for d in range(2)]
                w = quadratic_weights(em, Xs)
                for K in range(edm.shape[1]):
                    o = [sum(w[a] * Pm[d, edm[a, K]] for a in range(len(w))) for d in range(2)]
                    J = np.array([[dsym(tosym(o[a]), Xs[b], {}) for b in range(2)] for a in range(2)], dtype=object)
                    dJ = tosym(det_obj(J))
                    for q_ in range(Xq.shape[1]):
                        sub = [(tosym(Xs[d]).a, tosym(Xql[d, q_]).a) for d in range(2)]
                        h.assume(Sym(z3.substitute(dJ.a, *sub)) != 0)
        else:
            m = make_mesh(h, mesh, free=free, cls=mesh_cls)
        e = ctor()
        vb = make_basis(h, m, e, kind, intorder=intorder)
        if trial is None:
            ub = vb
        else:
            te, tkind = trial
            ub = make_basis(h, m, ELEMENTS()[te][0](), tkind or kind, intorder=intorder if intorder is not None else None)
            if ub.X.shape != vb.X.shape:
                # same quadrature for trial and test, as the library requires
                ub = type(ub)(m, ub.elem, quadrature=vb.quadrature, **({'side': int(tkind.split('-')[1])} if tkind and tkind.startswith('ifacet') else {}))
        Nu, Nv = ub.N, vb.N
        u = h.sym('u', (Nu,), nominal=(np.arange(Nu) * 5 % 7) - 2.5)
        v = h.sym('v', (Nv,), nominal=(np.arange(Nv) * 3 % 5) - 1.75)
        extra = {}
        extra_fun = {}
        if req == 'scalar-k':
            k = h.sym('k', (ub.N,), nominal=(np.arange(ub.N) * 2 % 3) + 0.5)
            extra['k'] = k
        if req == 'scalar-c':
            c = h.sym('c', (), nominal=1.375)
            extra['c'] = c
        h.sample(dict(mesh=mesh, element=elem, integrand=form, basis=kind, trial=str(trial), N_trial=int(Nu), N_test=int(Nv),
                      cells=int(m.t.shape[1])))

        # ---- bilinear form --------------------------------------------------------------------------
        F = S.BilinearForm(fn, dtype=dt, nthreads=nthreads)
        if h.sym_mode:
            if nthreads:
                import importlib
                bfm = importlib.import_module('skfem.assembly.form.bilinear_form')
                real_thread, bfm.Thread = bfm.Thread, _SeqThread
                h.stub('threading.Thread inside skfem.assembly.form.bilinear_form -> sequential stand-in (workers run in reverse start order at the first join)')
                try:
                    (rows, cols), data, shape, lshape = F._assemble(ub, vb, **extra)
                finally:
                    bfm.Thread = real_thread
            else:
                (rows, cols), data, shape, lshape = F._assemble(ub, vb, **extra)
            h.concrete('shape', tuple(shape) == (Nv, Nu), str(shape))
            h.concrete('index-range', rows.max() < Nv and cols.max() < Nu and rows.min() >= 0 and cols.min() >= 0)
            lhs = 0
            for r, c_, d in zip(rows, cols, data):
                lhs = lhs + v[r] * d * u[c_]
        else:
            A = F.assemble(ub, vb, **extra)
            h.concrete('shape', A.shape == (Nv, Nu), str(A.shape))
            lhs = float(v @ (A @ u))
        uh, vh = _tup(ub.interpolate(u)), _tup(vb.interpolate(v))
        w = FormExtraParams({**ub.default_parameters(), **F._normalize_asm_kwargs(dict(extra), ub)})
        rhs = np.sum(fn(*uh, *vh, w) * ub.dx)
        scale = None if h.sym_mode else max(1.0, abs(float(rhs)))
        h.zero('bilinear: v^T A u == a(u_h, v_h)', lhs - rhs, scale=scale or 1.0)
        if canary and h.sym_mode and Nu == Nv:
            # rows <-> columns swapped must be refuted for a non-symmetric integrand
            sw = 0
            for r, c_, d in zip(rows, cols, data):
                sw = sw + v[c_] * d * u[r]
            h.canary('canary: rows and columns swapped', sw - rhs)

        # ---- linear form: b.v == l(v_h) with the trial function frozen as a field ---------------------
        if trial is None or ub.X.shape == vb.X.shape:
            uf = ub.interpolate(u)
            lf = lambda v_, w_: fn(*_tup(w_['uprev']), *_tup(v_), w_) if not isinstance(v_, tuple) else None
            nv = len(vh)

            def lform(*args):
                w_ = args[-1]
                return fn(*_tup(w_['uprev']), *args[:-1], w_)
            L = S.LinearForm(lform, dtype=dt)
            ex2 = dict(extra)
            if 'k' in ex2:
                ex2['k'] = ub.interpolate(ex2['k'])     # a coefficient vector belongs to the trial basis
            ex2['uprev'] = uf
            if h.sym_mode:
                (rws,), dat, shp, _ = _lin_assemble(L, vb, ex2)
                h.concrete('linear-shape', tuple(shp) == (Nv,))
                bl = 0
                for r, d in zip(rws, dat):
                    bl = bl + v[r] * d
            else:
                bvec = L.assemble(vb, **ex2)
                h.concrete('linear-shape', bvec.shape == (Nv,))
                bl = float(bvec @ v)
            h.zero('linear: b.v == l(v_h) == a(u_h, v_h)', bl - rhs, scale=scale or 1.0)

            # ---- functional ---------------------------------------------------------------------------
            def fform(w_):
                return fn(*_tup(w_['uprev']), *_tup(w_['vprev']), w_)
            J = S.Functional(fform, dtype=dt)
            ex3 = dict(ex2)
            ex3['vprev'] = vb.interpolate(v)
            s = J.assemble(ub, **ex3)
            h.zero('functional: s == a(u_h, v_h)', s - rhs, scale=scale or 1.0)
            el = J.elemental(ub, **ex3)
            h.zero('functional: sum(elemental) == s', np.sum(el) - s, scale=scale or 1.0)


def trilinear_config(h, mesh, elems, kind, free=None):
    """TrilinearForm: T[m, r, c] contracted with (w, v, u) == form(u_h, v_h, w_h) summed with the basis' quadrature; three different
    local sizes so that every axis mix-up changes the value or the shape."""
    import skfem as S
    from skfem.assembly.form.form import FormExtraParams
    from skfem.assembly.form.trilinear_form import TrilinearForm
    dt = object if h.sym_mode else np.float64
    with warnings.catch_warnings():
        warnings.simplefilter('ignore')
        m = make_mesh(h, mesh, free=free)
        E = ELEMENTS()
        ub = make_basis(h, m, E[elems[0]][0](), kind, intorder=3)
        vb = make_basis(h, m, E[elems[1]][0](), kind, intorder=3)
        wb = make_basis(h, m, E[elems[2]][0](), kind, intorder=3)
        u = h.sym('u', (ub.N,), nominal=(np.arange(ub.N) * 5 % 7) - 2.5)
        v = h.sym('v', (vb.N,), nominal=(np.arange(vb.N) * 3 % 5) - 1.75)
        z = h.sym('z', (wb.N,), nominal=(np.arange(wb.N) * 2 % 3) + 0.5)
        h.sample(dict(mesh=mesh, elements=list(elems), basis=kind, N=[int(ub.N), int(vb.N), int(wb.N)]))

        def fn(u_, v_, w_, p):
            return u_ * v_.grad[0] * w_ + p.x[0] * u_.grad[-1] * v_ * w_

        T = TrilinearForm(fn, dtype=dt)
        (mats, rows, cols), data, shape, lshape = T._assemble(ub, vb, wb)
        h.concrete('shape', tuple(shape) == (wb.N, vb.N, ub.N), str(shape))
        h.concrete('local shape', tuple(lshape) == (ub.Nbfun, vb.Nbfun, wb.Nbfun), str(lshape))
        h.concrete('index-range', mats.max() < wb.N and rows.max() < vb.N and cols.max() < ub.N and min(mats.min(), rows.min(), cols.min()) >= 0)
        lhs = 0
        for a, r, c_, d in zip(mats, rows, cols, data):
            lhs = lhs + z[a] * v[r] * d * u[c_]
        w = FormExtraParams(ub.default_parameters())
        rhs = np.sum(fn(ub.interpolate(u), vb.interpolate(v), wb.interpolate(z), w) * ub.dx)
        scale = 1.0 if h.sym_mode else max(1.0, abs(float(rhs)))
        h.zero('trilinear: T(w, v, u) == t(u_h, v_h, w_h)', lhs - rhs, scale=scale)
        if not h.sym_mode:
            dense = T.assemble(ub, vb, wb).toarray()
            h.concrete('dense tensor shape', dense.shape == (wb.N, vb.N, ub.N), str(dense.shape))
            val = float(np.einsum('mrc,m,r,c', dense, z, v, u))
            h.zero('trilinear: dense tensor contraction == t(u_h, v_h, w_h)', val - rhs, scale=scale)


def param_forms_config(h, mesh, elem, kind):
    """Equivalent ways of handing parameters and forms to the assembler give the same triplets: a coefficient vector, its
    interpolation (DiscreteField), the raw array of its values at the quadrature points; Form.partial; the decorator-with-options
    spelling; a scalar."""
    import skfem as S
    ctor = ELEMENTS()[elem][0]
    dt = object if h.sym_mode else np.float64
    with warnings.catch_warnings():
        warnings.simplefilter('ignore')
        m = make_mesh(h, mesh)
        b = make_basis(h, m, ctor(), kind)
        N = int(b.N)
        k = h.sym('k', (N,), nominal=(np.arange(N) * 2 % 3) + 0.5)
        c = h.sym('c', (), nominal=1.375)
        h.sample(dict(mesh=mesh, element=elem, basis=kind, N=N))
        fn = lambda u, v, w: w.k * u * v.grad[0] + w.c * u * v
        ref = S.BilinearForm(fn, dtype=dt)._assemble(b, k=k, c=c)
        kf = b.interpolate(k)

        def same(tag, got):
            h.concrete('%s: same triplet indices' % tag, np.array_equal(got[0], ref[0]) and tuple(got[2]) == tuple(ref[2]))
            h.equal('%s: same values' % tag, np.asarray(got[1]), np.asarray(ref[1]))
        same('parameter as interpolated field', S.BilinearForm(fn, dtype=dt)._assemble(b, k=kf, c=c))
        same('parameter as raw array of values at the quadrature points', S.BilinearForm(fn, dtype=dt)._assemble(b, k=np.asarray(kf.value), c=c))

        def fn2(u, v, w, alpha=0, beta=1):
            return w.k * u * v.grad[0] * beta + alpha * u * v
        same('Form.partial binds keyword arguments of the integrand', S.BilinearForm(fn2, dtype=dt).partial(alpha=c)._assemble(b, k=k))
        deco = S.BilinearForm(dtype=dt)(fn)          # the decorator-with-options spelling
        same('decorator with options', deco._assemble(b, k=k, c=c))
        # linear forms and functionals accept the same spellings
        lf = lambda v, w: w.k * v.grad[0] + w.c * v
        r1 = S.LinearForm(lf, dtype=dt)._assemble(b, k=k, c=c)
        r2 = S.LinearForm(lf, dtype=dt)._assemble(b, k=np.asarray(kf.value), c=c)
        h.equal('linear form: raw array parameter == coefficient vector', np.asarray(r2[1]), np.asarray(r1[1]))
        j1 = S.Functional(lambda w: w.k * w.k.grad[0] * w.c if hasattr(w.k, 'grad') and w.k.grad is not None else w.k, dtype=dt).assemble(b, k=k, c=c)
        j2 = S.Functional(lambda w: w.k * w.k.grad[0] * w.c if hasattr(w.k, 'grad') and w.k.grad is not None else w.k, dtype=dt).assemble(b, k=kf, c=c)
        h.zero('functional: interpolated field parameter == coefficient vector', j1 - j2)


def floatpath_config(h, mesh, elem, form, kind, scale):
    """Mode F: the real float64 assemble() (COOData -> scipy CSR, duplicate summation, eliminate_zeros) against the exact
    assembly on the same numeric geometry; for every row i, |((A_float - A_exact) u)_i| <= 1e-9 max|A_exact| for ALL u in [-1,1]^N."""
    import skfem as S
    from engine import stubs_misc
    from engine.zoo import topo
    from fractions import Fraction
    ctor, cat, _ = ELEMENTS()[elem]
    fn, req = FORMS()[form]
    cname, p, t = topo(mesh)
    sc = float(scale)
    with warnings.catch_warnings():
        warnings.simplefilter('ignore')
        if h.sym_mode:
            with stubs_misc.plain_numpy():
                mf = getattr(S, cname)(p * sc, t)
                bf = make_basis(h, mf, ctor(), kind)
                Af = S.BilinearForm(fn).assemble(bf)
                h.concrete('float path returns a scipy CSR matrix of float64', Af.dtype == np.float64 and Af.format == 'csr')
                Afd = Af.toarray()
            m = make_mesh(h, mesh, pt=(cname, p * sc, t), free='none')
            b = make_basis(h, m, ctor(), kind)
            (rows, cols), data, shape, _ = S.BilinearForm(fn, dtype=object)._assemble(b)
            N = int(b.N)
            E = np.zeros((N, N), dtype=object)
            for r, c_, d in zip(rows, cols, data):
                E[r, c_] = E[r, c_] + d
            mx = max(abs(float(v)) for v in E.ravel())
            u = h.sym('u', (N,), nominal=np.ones(N) * 0.5)
            for j in range(N):
                h.assume(h.And(u[j] >= -1, u[j] <= 1))
            tol = h.frac(Fraction(mx) / 10 ** 9)
            h.sample(dict(mode='float path', mesh=mesh, scale=sc, element=elem, integrand=form, N=N, max_entry=mx))
            for i in range(N):
                r = sum((h.frac(Fraction(float(Afd[i, j]))) - E[i, j]) * u[j] for j in range(N))
                h.valid('row %d: |(A_float - A_exact) u| <= 1e-9 max|A|' % i, h.And(r <= tol, r >= -tol), kinds=('default',))
        else:
            mf = getattr(S, cname)(p * sc, t)
            bf = make_basis(h, mf, ctor(), kind)
            F = S.BilinearForm(fn)
            Afd = F.assemble(bf).toarray()
            (rows, cols), data, shape, _ = F._assemble(bf)
            N = int(bf.N)
            E = np.zeros((N, N))
            np.add.at(E, (rows, cols), data)
            mx = np.abs(E).max()
            for i in range(N):
                if np.abs(Afd[i] - E[i]).sum() > 1e-9 * mx:
                    h.failed_keys.append(('row %d: |(A_float - A_exact) u| <= 1e-9 max|A|' % i, float(np.abs(Afd[i] - E[i]).sum() / mx)))


def _lin_assemble(L, vb, extra):
    out = L._assemble(vb, **extra)
    rows, data, shape, lshape = out
    return (np.asarray(rows).reshape(-1),), data, shape, lshape


MESH_KIND = dict(tri2heron='tri', tri2heron0='tri', line2='line', line3='line', line3perm='line', tri1='tri', tri2='tri', tri2perm='tri', tri3fan='tri',
                 tri4patch='tri', quad1='quad', quad2='quad', tet1='tet', tet2='tet', hex1='hex', hex2='hex', wedge1='wedge')


def build_configs(tier, seed):
    E = ELEMENTS()
    F = FORMS()
    quick = tier == 'quick'
    cfgs = []

    def add(mesh, elem, form, kind, **kw):
        ctor, cat, kinds = E[elem]
        if MESH_KIND[mesh] not in kinds or not applicable(F[form][1], cat, kind):
            return
        if not quick and kw.get('free') is None and not kw.get('curved'):
            # sizing of the thorough tier (measured: no verdict within 10 min with ALL coordinates symbolic): one free vertex
            heavy_tri = elem in ('TriP3', 'TriP4', 'TriRT2', 'TriCCR', 'TriP2B', 'TriDG2') and (kind != 'cell' or mesh == 'tri3fan' or form in ('field', 'gradfield', 'wh'))
            heavy_quad = elem in ('Quad2', 'QuadS2', 'QuadP3', 'QuadDG1') and mesh == 'quad2'
            heavy_tet = elem in ('TetP2', 'TetMini', 'TetCR') and kind != 'cell'
            if heavy_tri:
                kw['free'] = [3]
            elif heavy_quad:
                kw['free'] = 'none'       # (one free vertex: still no verdict within 25 min for Quad2 / QuadP3)
            elif heavy_tet:
                kw['free'] = [4]
        name = '%s/%s/%s/%s' % (mesh, elem, form, kind)
        if kw.get('trial'):
            name += '/trial=%s:%s' % kw['trial']
        if kw.get('free') is not None:
            name += '/free=%s' % (kw['free'] if isinstance(kw['free'], str) else ','.join(map(str, kw['free'])))
        if kw.get('nthreads'):
            name += '/nthreads=%d' % kw['nthreads']
        if kw.get('curved'):
            name += '/curved-%s' % kw['curved']
        if any(c['name'] == name for c in cfgs):
            return
        opts = dict(timeout=300 if quick else 1800)
        cfgs.append(dict(name=name, fn=weak_config, kw=dict(mesh=mesh, elem=elem, form=form, kind=kind, **kw), opts=opts))

    scalar_forms = ['mass', 'nonsym', 'lap', 'wx', 'wh', 'field', 'gradfield', 'scalarparam']
    # --- 2-D simplices, fully symbolic geometry -------------------------------------------------------------
    tri_scalar = ['TriP0', 'TriP1', 'TriP2', 'TriMini', 'TriCR', 'TriDG1'] + ([] if quick else ['TriP3', 'TriP4', 'TriCCR', 'TriP2B', 'TriDG2'])
    for el in tri_scalar:
        for f in (['nonsym', 'wx', 'field'] if quick else scalar_forms):
            add('tri2', el, f, 'cell', canary=(f == 'nonsym' and el != 'TriP0'))
        add('tri2perm', el, 'wx', 'cell')
        add('tri2', el, 'wn', 'facet')
        add('tri2', el, 'ifjump', 'ifacet-0')
        add('tri2', el, 'ifjump', 'ifacet-1')
        add('tri2', el, 'nonsym', 'cell-subset:1')
        add('tri2', el, 'wn', 'facet-subset:0,2')
        if not quick:
            add('tri3fan', el, 'wx', 'cell')
            add('tri3fan', el, 'gradfield', 'cell-subset:0,2')
            add('tri3fan', el, 'ifjump', 'ifacet-0')
            add('tri3fan', el, 'wh', 'facet')
    for el in ['TriVecP1'] + ([] if quick else ['TriVecP2']):
        add('tri2', el, 'elast', 'cell')
        add('tri2', el, 'vmass', 'facet')
    for el in ['TriRT0', 'TriRT1', 'TriBDM1'] + ([] if quick else ['TriRT2']):
        add('tri2', el, 'hdiv', 'cell')
        add('tri2perm', el, 'hdiv', 'cell')
        add('tri2', el, 'vmass', 'facet')
    for el in ['TriN1'] + ([] if quick else ['TriN2']):
        add('tri2', el, 'hcurl', 'cell')
        add('tri2', el, 'vmass', 'ifacet-0')
    add('tri2', 'TriStokes', 'stokes', 'cell')
    add('tri2', 'TriMixed', 'mixed', 'cell')
    # composite elements on facet bases: basis functions that vanish on the facet still have a gradient there
    # (a single facet: the function of the opposite vertex vanishes on the whole basis)
    add('tri2', 'TriStokes', 'stokes', 'facet-subset:0')
    add('tri2', 'TriStokes', 'stokes', 'facet-subset:3')
    add('tri2', 'TriStokes', 'stokes', 'ifacet-1')
    add('tri2', 'TriMixed', 'mixed', 'facet-subset:2')
    # coefficient-vector parameters whose length coincides with the number of cells / facets of the basis
    add('tri2', 'TriP1', 'field', 'facet')            # N = 4 = boundary facets
    add('tri2', 'TriP1', 'gradfield', 'facet')
    add('tri3fan', 'TriP1', 'field', 'facet')         # N = 5 = boundary facets
    add('tri2', 'TriCR', 'field', 'facet-subset:0,1,2,3')
    if not quick:
        add('tri2', 'TriMiniStokes', 'stokes', 'cell')
    # trial != test
    add('tri2', 'TriP1', 'nonsym', 'cell', trial=('TriP2', None))
    add('tri2', 'TriP2', 'wx', 'cell', trial=('TriP1', None))
    add('tri2', 'TriP1', 'mass', 'ifacet-0', trial=('TriP1', 'ifacet-1'))
    # a coefficient-vector parameter belongs to the TRIAL basis: different sides / different elements for trial and test
    add('tri2', 'TriP1', 'field', 'ifacet-0', trial=('TriP1', 'ifacet-1'))
    add('tri2', 'TriP2', 'gradfield', 'cell', trial=('TriP1', None))
    # (curved second-order meshes were tried with symbolic mid-side nodes: the library's `detDF == 0` guard forks on a determinant the
    #  solver cannot separate from the harness' own non-degeneracy assumption within minutes - outside the claim, DESIGN 10.6)
    # a subset of the interior facets (tri3fan has two), either side, also with different sides for trial and test
    add('tri3fan', 'TriP1', 'ifjump', 'ifacet-0-subset:1')
    add('tri3fan', 'TriP2', 'ifjump', 'ifacet-1-subset:0', free=[1, 4])
    add('tri3fan', 'TriP1', 'mass', 'ifacet-0-subset:1', trial=('TriP1', 'ifacet-1-subset:1'))
    # threaded kernel: rectangular local matrices in both directions, more threads than pairs, facet bases
    add('tri2', 'TriP1', 'nonsym', 'cell', trial=('TriP2', None), nthreads=2)
    add('tri2', 'TriP2', 'wx', 'cell', trial=('TriP0', None), nthreads=4)
    add('tri2', 'TriP0', 'nonsym', 'cell', nthreads=3)
    add('tri2', 'TriP1', 'ifjump', 'ifacet-0', nthreads=2)
    add('line3perm', 'LineP2', 'nonsym', 'cell', nthreads=5)
    # globally defined elements: numeric geometry (their V matrix comes from the float LAPACK inverse)
    for el in ['TriMorley'] + ([] if quick else ['TriArgyris', 'TriHermite']):
        # Heronian cells: unit normals are rational, so the exact Vandermonde inverse stays in the rationals
        add('tri2heron', el, 'hess' if el != 'TriHermite' else 'nonsym', 'cell', free='none')
    # --- 1-D ------------------------------------------------------------------------------------------------
    for el in ['LineP1', 'LineP2', 'LineMini', 'LinePp3'] + ([] if quick else ['LineP0']):
        for f in (['nonsym', 'wx'] if quick else scalar_forms):
            add('line3perm', el, f, 'cell', canary=(f == 'nonsym' and el != 'LineP0'))     # (P0: the integrand u v' vanishes identically)
        add('line3', el, 'mass', 'facet')
        add('line3', el, 'mass', 'ifacet-0')
    add('line2', 'LineHermite', 'nonsym', 'cell', free='none')
    # --- quads (isoparametric) --------------------------------------------------------------------------------
    for el in ['Quad1', 'Quad0'] + ([] if quick else ['Quad2', 'QuadS2', 'QuadDG1', 'QuadP3']):
        for f in (['nonsym', 'wx'] if quick else ['nonsym', 'wx', 'field', 'lap']):
            add('quad2', el, f, 'cell', canary=(f == 'nonsym' and el != 'Quad0'))
        # facet bases on quadrilaterals go through the Newton inverse map: numeric geometry
        add('quad2', el, 'wn', 'facet', free='none')
        add('quad2', el, 'ifjump', 'ifacet-0', free='none')
    add('quad2', 'QuadRT1', 'hdiv', 'cell')
    if not quick:
        add('quad2', 'QuadVec1', 'elast', 'cell')
    # --- tets ---------------------------------------------------------------------------------------------------
    for el in ['TetP1', 'TetP0'] + ([] if quick else ['TetP2', 'TetMini', 'TetCR']):
        add('tet2', el, 'nonsym', 'cell', canary=(el != 'TetP0'))
        add('tet2', el, 'wx', 'cell')
        add('tet2', el, 'wn', 'facet')
        add('tet2', el, 'ifjump', 'ifacet-0')
    add('tet2', 'TetRT1', 'hdiv', 'cell')
    add('tet2', 'TetN1', 'hcurl', 'cell')
    if not quick:
        add('tet2', 'TetVecP1', 'elast', 'cell')
    # --- hexes / wedges: numeric or partly symbolic geometry ------------------------------------------------------
    add('hex1', 'Hex1', 'nonsym', 'cell', free='none', canary=True)
    add('hex1', 'Hex1', 'wn', 'facet', free='none')
    add('wedge1', 'Wedge1', 'nonsym', 'cell', free='none')
    if not quick:
        add('hex2', 'Hex1', 'ifjump', 'ifacet-0', free='none')
        add('hex1', 'HexS2', 'nonsym', 'cell', free='none')
        add('hex1', 'Hex2', 'nonsym', 'cell', free='none')
        add('hex1', 'Hex0', 'mass', 'cell', free=[0, 1])
        add('hex1', 'HexRT1', 'hdiv', 'cell', free='none')
    for (mesh, elem, kind) in [('tri2', 'TriP1', 'cell'), ('tri2', 'TriP2', 'facet'), ('line3perm', 'LineP2', 'cell')]:
        cfgs.append(dict(name='param-forms/%s/%s/%s' % (mesh, elem, kind), fn=param_forms_config, kw=dict(mesh=mesh, elem=elem, kind=kind), opts=dict(timeout=600)))
    # --- trilinear forms: three different local sizes ---------------------------------------------------------------------------
    for (mesh, elems, kind) in [('tri2', ('TriP1', 'TriP2', 'TriP0'), 'cell'), ('line3perm', ('LineP2', 'LineP1', 'LineP0'), 'cell'),
                                ('tri2', ('TriP0', 'TriP1', 'TriCR'), 'facet')]:
        cfgs.append(dict(name='trilinear/%s/%s/%s' % (mesh, 'x'.join(elems), kind), fn=trilinear_config,
                         kw=dict(mesh=mesh, elems=elems, kind=kind), opts=dict(timeout=300 if quick else 1800)))
    # --- Mode F: real float64 CSR path against the exact assembly, unit-size and tiny (1e-9) geometry ----------------------------
    for (mesh, elem, form, kind) in [('tri2', 'TriP2', 'lap', 'cell'), ('tri2', 'TriP1', 'mass', 'cell'), ('tet2', 'TetP1', 'mass', 'cell'),
                                     ('line3perm', 'LineP2', 'mass', 'cell'), ('tri2heron0', 'TriP1', 'mass', 'facet'), ('quad2', 'Quad1', 'mass', 'cell')]:
        for scale in ((1.0, 2.0 ** -30) if quick else (1.0, 2.0 ** -20, 2.0 ** -30, 2.0 ** 10)):   # powers of two: exact scaling
            cfgs.append(dict(name='floatpath/%s/%s/%s/%s/scale=%g' % (mesh, elem, form, kind, scale), fn=floatpath_config,
                             kw=dict(mesh=mesh, elem=elem, form=form, kind=kind, scale=scale), opts=dict(timeout=300)))
    return cfgs


META = dict(
    explanation='The real _assemble of BilinearForm/LinearForm/Functional runs on bases built by the real CellBasis/FacetBasis/'
                'InteriorFacetBasis over meshes whose vertex coordinates are symbolic reals; the returned COO triplets are contracted '
                'with symbolic coefficient vectors u, v and z3 decides the identity v^T A u = sum(form(interpolate(u), interpolate(v), w) dx) '
                '(the independent interpolation path the property names), b.v = l(v_h), Functional = v^T A u, with parameters passed '
                'as coefficient vector / interpolated field / scalar / default x, h, n.  A canary (rows and columns swapped) must be refuted.',
    symbolic='vertex coordinates, coefficient vectors u, v, k, scalar parameter c',
    bounds=dict(meshes='1-3 cell meshes of Line1/Tri1/Quad1/Tet1 with ALL vertex coordinates symbolic (either orientation); Hex1/Wedge1 numeric or 1-2 free vertices; '
                       'globally defined elements numeric geometry', elements='see configuration names',
                integrands='values, grad, div, curl, hess, products with w.x, w.h, w.n, interpolated field and its gradient, scalar'),
    outside=['complex dtype', 'curved second-order meshes (tried: no verdict within minutes)', 'meshes larger than the zoo', 'thread schedules (C16; here the threaded kernel runs its workers sequentially in reverse start order)', 'float rounding',
             'duplicate summation inside scipy CSR construction (the COO triplets are contracted directly in symbolic mode; the float replay uses the real CSR path)'],
    assumptions=['mesh validity: cell determinants non-zero, neighbours on opposite sides of shared facets, quadrilaterals convex'],
    design_ref='DESIGN.md 4/C01',
)

if __name__ == '__main__':
    sys.exit(harness.main('C01', 'checks.c01', build_configs, META))
