#!/bin/bash
# usage: tools/trymut.sh <patchfile> <ID> [tier] [extra args]   -- applies patch to /repo, runs check, always restores
P="$1"; ID="$2"; TIER="${3:-quick}"
if [ $# -ge 3 ]; then shift 3; else shift $#; fi
cd /repo && git apply "$P" || { echo "patch does not apply"; exit 3; }
cd /verif && ./run_check.sh "$ID" "$TIER" --no-evidence "$@" > /tmp/trymut.out 2>&1
rc=$?
grep -E "^VIOLATION|^HARNESS|^KNOWN|^C[0-9]+ |^  configuration" /tmp/trymut.out | cut -c1-260 | head -14
echo "exit=$rc"
cd /repo && git checkout -- . 
