"""C15 (part) - no hidden state: history-independent results, operands never mutated.

Each configuration is a HISTORY on shared objects whose last operation is compared with the same operation on freshly built equal
objects; the arguments of the calls are symbolic, so "stateful result == fresh result" is an identity the solver decides for all
argument values.  Stateful evaluators covered: ElementLinePp/QuadP.lbasis (Legendre cache), ElementGlobal.gbasis (Vandermonde cache),
MappingIsoparametric.J (hash_args cache, also its aliasing with CellBasis.dx), MappingAffine lazy members, basis lazy members,
solver-factory closures, with_boundaries/with_subdomains/translated (tag dictionaries), get_dofs.
"""
import sys
import warnings

import numpy as np

from engine import harness
from engine.sym import Sym, tosym
from engine.zoo import make_mesh, topo
from checks.c09 import make_elem
from checks.c03 import renumbered


def same_terms(h, a, b):
    a, b = np.asarray(a), np.asarray(b)
    if a.shape != b.shape:
        return False
    for u, v in zip(a.ravel(), b.ravel()):
        if u is v:
            continue
        if isinstance(u, Sym) or isinstance(v, Sym):
            if not tosym(u).a.eq(tosym(v).a):
                return False
        elif not (u == v or (u != u and v != v)):
            return False
    return True


def lbasis_history_config(h, spec, shared_rows):
    """lbasis at X1 then at X2 (equal shape; X2 shares the listed coordinate rows with X1) == lbasis at X2 on a fresh element."""
    e = make_elem(spec)
    dim = e.refdom.dim()
    X1 = h.sym('X', (dim, 2), nominal=np.array([[0.2, 0.7], [0.3, 0.6]])[:dim])
    Y = h.sym('Y', (dim, 2), nominal=np.array([[0.45, 0.15], [0.8, 0.35]])[:dim])
    X2 = np.array([[X1[d, q] if d in shared_rows else Y[d, q] for q in range(2)] for d in range(dim)], dtype=object if h.sym_mode else float)
    from checks.c09 import nbfun
    N = nbfun(e)
    h.sample(dict(element=spec, history=['lbasis(X1, i) for all i', 'lbasis(X2, i)'], shared_coordinate_rows=list(shared_rows)))
    first = [e.lbasis(X1, i) for i in range(N)]          # the arrays handed out by the first round are kept (as a basis object would)
    snapX2 = np.array(X2, copy=True)
    for i in range(N):
        got = e.lbasis(X2, i)
        fresh = make_elem(spec).lbasis(np.array(X2, copy=True), i)
        h.equal('value[%d] after the history == on a fresh element' % i, np.asarray(got[0]), np.asarray(fresh[0]))
        h.equal('derivative[%d] after the history == on a fresh element' % i, np.asarray(got[1]), np.asarray(fresh[1]))
    h.concrete('argument array unchanged', same_terms(h, X2, snapX2))
    ref = make_elem(spec)
    for i in range(N):
        want = ref.lbasis(np.array(X1, copy=True), i)
        h.equal('value[%d] returned by the FIRST round is still the value at X1 after the later calls' % i, np.asarray(first[i][0]), np.asarray(want[0]))
        h.equal('derivative[%d] returned by the first round is still the derivative at X1' % i, np.asarray(first[i][1]), np.asarray(want[1]))


def global_reuse_config(h, spec, same_size=True):
    """One ElementGlobal object used on mesh A, then on mesh B (different geometry / different size)."""
    import skfem as S
    with warnings.catch_warnings():
        warnings.simplefilter('ignore')
        e = make_elem(spec)
        mA = make_mesh(h, 'tri2heron', var='q', free='none')
        ptB = renumbered('tri2heron', (2, 0, 3, 1)) if same_size else topo('tri1heron')
        X = h.sym('X', (2, 1), nominal=np.array([[0.28125], [0.21875]]))
        e.gbasis(mA._mapping(), X, 0)
        mB = make_mesh(h, 'tri2heron' if same_size else 'tri1heron', pt=ptB, free='none')
        mB2 = make_mesh(h, 'tri2heron' if same_size else 'tri1heron', pt=ptB, free='none')
        h.sample(dict(element=spec, history=['gbasis on mesh A', 'gbasis on mesh B'], same_number_of_cells=same_size))
        fresh = make_elem(spec)
        from skfem.assembly import Dofs
        N = Dofs(mB, e).element_dofs.shape[0]
        for i in range(min(N, 6)):
            got = e.gbasis(mB._mapping(), X, i)[0]
            want = fresh.gbasis(mB2._mapping(), X, i)[0]
            h.equal('value of basis %d on mesh B after use on mesh A == fresh element' % i, np.asarray(got.value), np.asarray(want.value))
            h.equal('gradient of basis %d' % i, np.asarray(got.grad), np.asarray(want.grad))


def jacobian_cache_config(h, mesh, variant):
    """MappingIsoparametric.J is cached on hash_args(i, j, X, tind)."""
    import importlib
    import skfem as S
    MI = importlib.import_module('skfem.mapping.mapping_isoparametric').MappingIsoparametric
    with warnings.catch_warnings():
        warnings.simplefilter('ignore')
        m = make_mesh(h, mesh, free=[2] if mesh == 'quad2' else None)
        dim = m.p.shape[0]
        mp = MI(m, m.elem(), m.bndelem)
        nt = m.t.shape[1]
        h.sample(dict(mesh=mesh, variant=variant))
        if variant == 'same-values-different-shape':
            # the same numbers as a shared (dim, 4) array and as a per-cell (dim, 2, 2) array
            X = h.sym('X', (dim, 4), nominal=np.array([[0.2, 0.7, 0.4, 0.55], [0.3, 0.6, 0.15, 0.8], [0.25, 0.35, 0.45, 0.65]])[:dim])
            mp.DF(X)
            X3 = X.reshape(dim, 2, 2) if nt == 2 else None
            got = mp.DF(X3)
            want = MI(m, m.elem(), m.bndelem).DF(X3)
            h.concrete('shape of DF for per-cell points', np.shape(got) == np.shape(want), '%s vs %s' % (np.shape(got), np.shape(want)))
            if np.shape(got) == np.shape(want):
                h.equal('DF(per-cell points) after DF(shared points with the same values) == fresh mapping', np.asarray(got), np.asarray(want))
        elif variant == 'different-subsets':
            X = h.sym('X', (dim, 2), nominal=np.array([[0.2, 0.7], [0.3, 0.6], [0.25, 0.35]])[:dim])
            if h.sym_mode and m.refdom.__name__ == 'RefQuad':
                from engine.zoo import own_det_at
                for K in range(nt):
                    for q in range(2):
                        dd = own_det_at(m, K, [X[d, q] for d in range(dim)])
                        if dd.c is None:
                            h.assume(dd != 0)
            mp.DF(X, tind=np.array([0]))
            got = mp.DF(X, tind=np.array([1]))
            want = MI(m, m.elem(), m.bndelem).DF(X, tind=np.array([1]))
            h.equal('DF on cell 1 after DF on cell 0 == fresh mapping', np.asarray(got), np.asarray(want))
            got = mp.detDF(X)
            want = MI(m, m.elem(), m.bndelem).detDF(X)
            h.equal('detDF on all cells after the subset calls == fresh mapping', np.asarray(got), np.asarray(want))
        elif variant == 'basis-then-mapping':
            # a basis built with this mapping must not alias the cached Jacobian (dx computed in place would poison the cache)
            e = S.ElementLineP1() if dim == 1 else m.elem()
            b1 = S.CellBasis(m, e, mapping=mp, intorder=2)
            dx1 = np.array(b1.dx, copy=True)
            got = mp.DF(b1.X)
            want = MI(m, m.elem(), m.bndelem).DF(b1.X)
            h.equal('DF at the quadrature points after building a basis == fresh mapping', np.asarray(got), np.asarray(want))
            b2 = S.CellBasis(m, e, mapping=mp, intorder=2)
            h.equal('dx of a second basis on the same mapping == dx of the first', np.asarray(b2.dx), np.asarray(dx1))
            h.concrete('dx of the first basis unchanged by building the second', same_terms(h, b1.dx, dx1))


def affine_lazy_config(h):
    """MappingAffine lazy members with and without a cell subset; basis lazy members are stable."""
    import importlib
    import skfem as S
    MA = importlib.import_module('skfem.mapping.mapping_affine').MappingAffine
    with warnings.catch_warnings():
        warnings.simplefilter('ignore')
        m = make_mesh(h, 'tri3fan')
        X = h.sym('X', (2, 2), nominal=np.array([[0.2, 0.7], [0.3, 0.6]]))
        mp = MA(m)
        a1 = mp.F(X)
        mp.invF(a1)
        mp.F(X, tind=np.array([2, 0]))
        mp.detDF(X)
        a2 = mp.F(X)
        h.equal('F(X) is stable across other calls on the same mapping', np.asarray(a2), np.asarray(MA(m).F(X)))
        h.equal('DF after the history == fresh mapping', np.asarray(mp.DF(X, tind=np.array([1]))), np.asarray(MA(m).DF(X, tind=np.array([1]))))
        b = S.CellBasis(m, S.ElementTriP2())
        g1 = np.array(b.global_coordinates().value, copy=True)
        hp1 = np.array(b.mesh_parameters().value, copy=True)
        ed1 = np.array(b.element_dofs, copy=True)
        b.interpolate(h.sym('y', (b.N,), nominal=np.ones(b.N)))
        b.get_dofs()
        h.concrete('global_coordinates / mesh_parameters / element_dofs stable after other calls',
                   same_terms(h, b.global_coordinates().value, g1) and same_terms(h, b.mesh_parameters().value, hp1) and np.array_equal(b.element_dofs, ed1))
        t_ = h.sym('t', ())
        h.zero('trivial', t_ - t_)


def solver_closure_config(h, factory):
    """A solver object created once and called twice: options given to call 1 must not reach call 2."""
    import skfem.utils as U
    seen = []
    tol = h.sym('tol', (), nominal=0.015625)

    def spy(A, b, **kw):
        seen.append(dict(kw))
        return (np.zeros(2), 0) if factory != 'direct' else np.zeros(2)
    if factory == 'krylov':
        solver = U.solver_iter_krylov(krylov=spy, M=None)
    elif factory == 'pcg':
        solver = U.solver_iter_krylov(krylov=spy, M=None, atol=0.5)
    else:
        orig = U.spl.spsolve
        U.spl.spsolve = lambda A, b, **kw: spy(A, b, **kw)
        solver = U.solver_direct_scipy()
    try:
        A, b = object(), np.zeros(2)
        solver(A, b, **({'tol': tol, 'maxiter': 7} if factory != 'direct' else {'use_umfpack': tol}))
        solver(A, b)
    finally:
        if factory == 'direct':
            U.spl.spsolve = orig
    h.sample(dict(factory=factory, calls=['solver(A, b, option=<symbolic>)', 'solver(A, b)']))
    first, second = seen[0], seen[1]
    leaked = [k for k in second if k in ('tol', 'maxiter', 'use_umfpack')]
    key = 'tol' if factory != 'direct' else 'use_umfpack'
    val = second.get(key, None)
    # identity "option seen by call 2 == default" for all values of the option given to call 1
    h.concrete('options of call 1 are not passed to call 2', not leaked, 'call 2 received %s' % sorted(second))
    t_ = h.sym('t', ())
    h.zero('trivial', t_ - t_)


def tags_config(h, mesh):
    """Operations returning new meshes leave the operand's tag dictionaries (and arrays) unchanged."""
    with warnings.catch_warnings():
        warnings.simplefilter('ignore')
        m0 = make_mesh(h, mesh)
        m1 = m0.with_boundaries({'a': np.array([0], dtype=np.int32)}).with_subdomains({'s': np.array([0], dtype=np.int32)})
        snap_b = {k: np.array(v) for k, v in m1.boundaries.items()}
        snap_s = {k: np.array(v) for k, v in m1.subdomains.items()}
        snapP = np.array(m1.doflocs, copy=True)
        d = h.sym('d', (m0.p.shape[0],), nominal=np.ones(m0.p.shape[0]) * 0.5)
        m2 = m1.with_boundaries({'b': np.array([1], dtype=np.int32)})
        m3 = m1.translated(tuple(d)).with_boundaries({'c': np.array([2], dtype=np.int32)}).with_subdomains({'t': np.array([1], dtype=np.int32)})
        m4 = m1.refined(1)
        m5 = m1.with_boundaries({'a': np.array([1, 2], dtype=np.int32)})
        h.sample(dict(mesh=mesh, history=['with_boundaries', 'translated + with_boundaries/with_subdomains', 'refined', 're-pointing a name']))
        ok = sorted(m1.boundaries) == sorted(snap_b) and all(np.array_equal(m1.boundaries[k], v) for k, v in snap_b.items())
        h.concrete('operand keeps exactly its boundary names and index arrays', ok, str({k: np.asarray(v).tolist() for k, v in m1.boundaries.items()}))
        ok = sorted(m1.subdomains) == sorted(snap_s) and all(np.array_equal(m1.subdomains[k], v) for k, v in snap_s.items())
        h.concrete('operand keeps exactly its subdomain names and index arrays', ok)
        h.concrete('operand coordinates unchanged', same_terms(h, m1.doflocs, snapP))
        h.concrete('results carry old and new names', sorted(m2.boundaries) == ['a', 'b'] and sorted(m3.boundaries) == ['a', 'c']
                   and np.array_equal(m5.boundaries['a'], [1, 2]))
        h.equal('translated copy has p + d', np.asarray(m3.doflocs), np.array([[m1.doflocs[i, v] + d[i] for v in range(m1.doflocs.shape[1])]
                                                                              for i in range(m1.doflocs.shape[0])], dtype=object if h.sym_mode else float))


def basis_history_config(h, mesh, spec):
    """Assembly and interpolation after other uses of the same basis/form objects == on fresh objects; operands unchanged."""
    import skfem as S
    with warnings.catch_warnings():
        warnings.simplefilter('ignore')
        m = make_mesh(h, mesh, free=[3] if mesh == 'tri2' else None)
        e = make_elem(spec)
        dt = object if h.sym_mode else np.float64
        b = S.CellBasis(m, e)
        N = int(b.N)
        y = h.sym('y', (N,), nominal=(np.arange(N) * 5 % 7) - 2.5)
        z = h.sym('z', (N,), nominal=(np.arange(N) * 3 % 5) - 1.5)
        F = S.BilinearForm(lambda u, v, w: u * v * w.k + u.grad[0] * v, dtype=dt)
        snap_y = np.array(y, copy=True)
        F._assemble(b, k=z)
        b.interpolate(z)
        (r1, c1), d1, _, _ = F._assemble(b, k=y)
        b2 = S.CellBasis(m, make_elem(spec))
        (r2, c2), d2, _, _ = S.BilinearForm(lambda u, v, w: u * v * w.k + u.grad[0] * v, dtype=dt)._assemble(b2, k=y)
        h.concrete('same triplet indices', np.array_equal(r1, r2) and np.array_equal(c1, c2))
        h.equal('assembly with parameter y after assembly with parameter z == on fresh objects', np.asarray(d1), np.asarray(d2))
        h.concrete('parameter vector unchanged', same_terms(h, y, snap_y))
        h.equal('interpolate(y) after the history == fresh', np.asarray(b.interpolate(y).value), np.asarray(b2.interpolate(y).value))


def shared_element_config(h, mesh, spec, kinds):
    """ONE element object serves two bases with equally many but different quadrature points (two facet bases on different
    boundary parts / two cell bases with different rules); the basis built FIRST is used afterwards and compared with fresh objects."""
    import skfem as S
    with warnings.catch_warnings():
        warnings.simplefilter('ignore')
        m = make_mesh(h, mesh, free=[3] if mesh in ('tri2', 'quad2') else ('none' if 'heron' in mesh else None))
        e = make_elem(spec)
        dt = object if h.sym_mode else np.float64

        def build(elem):
            if kinds == 'two-rules':
                n = 2
                X1 = np.array([[0.25, 0.75]] * elem.refdom.dim()) if elem.refdom.dim() == 1 else np.array([[0.25, 0.5], [0.25, 0.25]])
                X2 = np.array([[0.125, 0.625]] * elem.refdom.dim()) if elem.refdom.dim() == 1 else np.array([[0.125, 0.625], [0.375, 0.125]])
                W = np.full(n, (1.0 if elem.refdom.dim() == 1 else 0.5) / n)
                return (lambda: S.CellBasis(m, elem, quadrature=(X1, W))), (lambda: S.CellBasis(m, elem, quadrature=(X2, W)))
            bf = m.boundary_facets()
            return (lambda: S.FacetBasis(m, elem, facets=bf[:1])), (lambda: S.FacetBasis(m, elem, facets=bf[-1:]))
        mk1, mk2 = build(e)
        b1 = mk1()
        N = int(b1.N)
        y = h.sym('y', (N,), nominal=(np.arange(N) * 5 % 7) - 2.5)
        b2 = mk2()                                         # later use of the shared element object
        fn = lambda u, v, w: u * v + u.grad[0] * v
        (r1, c1), d1, _, _ = S.BilinearForm(fn, dtype=dt)._assemble(b1)
        f1, _ = build(make_elem(spec))
        bf1 = f1()
        (r2, c2), d2, _, _ = S.BilinearForm(fn, dtype=dt)._assemble(bf1)
        h.sample(dict(mesh=mesh, element=spec, history=['basis 1 (shared element)', 'basis 2 (same element object, other points, equal count)', 'assemble/interpolate with basis 1']))
        h.concrete('same triplet indices', np.array_equal(r1, r2) and np.array_equal(c1, c2))
        h.equal('assembly on basis 1 after basis 2 was built from the same element object == fresh', np.asarray(d1), np.asarray(d2))
        h.equal('interpolate on basis 1 == fresh', np.asarray(b1.interpolate(y).value), np.asarray(bf1.interpolate(y).value))
        (r3, c3), d3, _, _ = S.BilinearForm(fn, dtype=dt)._assemble(b2)
        _, f2 = build(make_elem(spec))
        (r4, c4), d4, _, _ = S.BilinearForm(fn, dtype=dt)._assemble(f2())
        h.equal('assembly on basis 2 == fresh', np.asarray(d3), np.asarray(d4))


def solve_operands_config(h, kind):
    """solve_linear(A, b, x, I) with a spy in place of the numerical routine: the expanded solution is x with the reduced solution
    scattered into it, the operand x is unchanged, and a SECOND solve of the same system returns the same."""
    import skfem.utils as U
    n = 4
    x = h.sym('x', (n,), nominal=np.array([0.5, -1.25, 2.0, 0.75]))
    sol = h.sym('s', (2,), nominal=np.array([1.5, -0.5]))
    g = h.sym('g', (), nominal=0.375)
    b = np.zeros(2)
    A = object()
    spy = lambda A_, b_, **kw: np.array(sol, copy=True)
    snap = np.array(x, copy=True)
    if kind == 'index':
        I = np.array([2, 0])
        want = np.array([sol[1], x[1], sol[0], x[3]], dtype=object if h.sym_mode else float)
    else:
        # the shape produced by mpc(): (permutation, expansion of the reduced solution); the slave value is T x_master + g
        # (x is zero where the expansion writes, as in the vector mpc() allocates: adding to it and assigning into it then agree)
        x = np.array([0 * x[0], x[1], 0 * x[2], 0 * x[3]], dtype=object if h.sym_mode else float)
        snap = np.array(x, copy=True)
        I = (np.array([2, 0, 3]), lambda r: np.concatenate((r, np.array([2 * r[1] + g]))))
        want = np.array([sol[1], x[1], sol[0], 2 * sol[1] + g], dtype=object if h.sym_mode else float)
    h.sample(dict(I=kind, history=['solve(A, b, x, I)', 'solve(A, b, x, I) again']))
    y1 = U.solve_linear(A, b, x, I, solver=spy)
    y1_snap = np.array(y1, copy=True)
    h.concrete('operand x unchanged by the first solve', same_terms(h, x, snap))
    y2 = U.solve_linear(A, b, x, I, solver=spy)
    h.concrete('operand x unchanged by the second solve', same_terms(h, x, snap))
    h.concrete('first result not modified by the second solve', same_terms(h, y1, y1_snap))
    h.equal('first solve == x with the reduced solution expanded into it', np.asarray(y1), want)
    h.equal('second solve == first solve', np.asarray(y2), want)


def tables_history_config(h, mesh):
    """Connectivity tables are derived lazily and cached on the mesh object: after the operand's tables were built, every mesh
    RETURNED by an operation must carry the tables of a mesh built from scratch with its own (p, t); the operand's tables stay as they were."""
    import skfem as S
    with warnings.catch_warnings():
        warnings.simplefilter('ignore')
        m = make_mesh(h, mesh)
        dim = m.p.shape[0]
        names = ['facets', 't2f', 'f2t'] + (['edges', 't2e', 'f2e'] if dim == 3 else [])
        before = {n: np.array(getattr(m, n), copy=True) for n in names}
        m.boundary_facets()
        try:
            m.element_finder()
        except Exception:   # noqa
            pass
        d = h.sym('d', (dim,), nominal=np.full(dim, 0.5))
        nt = m.t.shape[1]
        results = {
            'restrict(last cell)': m.restrict(np.array([nt - 1], dtype=np.int32)),
            'remove_elements(first cell)': m.remove_elements(np.array([0], dtype=np.int32)),
            'translated': m.translated(tuple(d)),
            'with_subdomains': m.with_subdomains({'s': np.array([0], dtype=np.int32)}),
            'with_boundaries': m.with_boundaries({'b': np.array([0], dtype=np.int32)}),
            'refined(1)': m.refined(1),
            'copy': m.copy(),
        }
        if type(m).__name__ == 'MeshQuad1':
            results['to_meshtri'] = m.to_meshtri()
        if type(m).__name__ == 'MeshLine1':
            results['refined([0])'] = m.refined(np.array([0], dtype=np.int32))
        h.sample(dict(mesh=mesh, operations=sorted(results)))
        t_ = h.sym('t', ())
        h.zero('trivial', t_ - t_)
        for opn, R in results.items():
            fresh = type(R)(R.doflocs, R.t, validate=False) if 'validate' in type(R).__dataclass_fields__ else type(R)(R.doflocs, R.t)
            same_t = np.array_equal(np.asarray(fresh.t), np.asarray(R.t))
            h.concrete('%s: a mesh built from scratch with the same (p, t) keeps the cell list' % opn, same_t)
            if not same_t:
                continue
            for n in names:
                h.concrete('%s: %s == table of a mesh built from scratch' % (opn, n), np.array_equal(np.asarray(getattr(R, n)), np.asarray(getattr(fresh, n))))
            h.concrete('%s: boundary_facets == from scratch' % opn, np.array_equal(np.asarray(R.boundary_facets()), np.asarray(fresh.boundary_facets())))
        for n in names:
            h.concrete('operand: %s unchanged' % n, np.array_equal(np.asarray(getattr(m, n)), before[n]))


def build_configs(tier, seed):
    quick = tier == 'quick'
    cfgs = []

    def add(name, fn, **kw):
        opts = dict(timeout=kw.pop('timeout', 500 if quick else 2400))
        cfgs.append(dict(name=name, fn=fn, kw=kw, opts=opts))
    for spec in ['ElementLinePp(3)', 'ElementLinePp(2)']:
        add('lbasis/%s/all-different' % spec, lbasis_history_config, spec=spec, shared_rows=())
    for spec in ['ElementQuadP(3)', 'ElementQuadP(2)']:
        for rows in ((), (0,), (1,)):
            add('lbasis/%s/shared=%s' % (spec, ''.join(map(str, rows)) or 'none'), lbasis_history_config, spec=spec, shared_rows=rows)
    for spec in ['ElementTriMorley', 'ElementTriArgyris'] if not quick else ['ElementTriMorley']:
        add('global-reuse/%s/same-size' % spec, global_reuse_config, spec=spec, same_size=True, timeout=900)
        add('global-reuse/%s/different-size' % spec, global_reuse_config, spec=spec, same_size=False, timeout=900)
    for variant in ('same-values-different-shape', 'different-subsets', 'basis-then-mapping'):
        add('jacobian-cache/quad2/%s' % variant, jacobian_cache_config, mesh='quad2', variant=variant)
    add('jacobian-cache/line2/basis-then-mapping', jacobian_cache_config, mesh='line2', variant='basis-then-mapping')
    add('jacobian-cache/line2/different-subsets', jacobian_cache_config, mesh='line2', variant='different-subsets')
    add('jacobian-cache/tri2/different-subsets', jacobian_cache_config, mesh='tri2', variant='different-subsets')
    add('affine-lazy/tri3fan', affine_lazy_config)
    for f in ('krylov', 'pcg', 'direct'):
        add('solver-closure/%s' % f, solver_closure_config, factory=f)
    for mesh in ('tri2', 'quad2', 'line3', 'tet2'):
        add('tags/%s' % mesh, tags_config, mesh=mesh)
    add('basis-history/tri2/ElementTriP2', basis_history_config, mesh='tri2', spec='ElementTriP2')
    add('basis-history/line3perm/ElementLinePp(3)', basis_history_config, mesh='line3perm', spec='ElementLinePp(3)')
    for mesh, spec, kinds in [('line3perm', 'ElementLinePp(3)', 'two-facets'), ('line3perm', 'ElementLinePp(2)', 'two-rules'),
                              ('line3perm', 'ElementLineP2', 'two-facets'), ('tri2', 'ElementTriP2', 'two-rules'),
                              ('quad2', 'ElementQuadP(2)', 'two-rules'), ('tri2heron', 'ElementTriMorley', 'two-rules')]:
        add('shared-element/%s/%s/%s' % (mesh, spec, kinds), shared_element_config, mesh=mesh, spec=spec, kinds=kinds, timeout=900)
    for kind in ('index', 'mpc-tuple'):
        add('solve-operands/%s' % kind, solve_operands_config, kind=kind)
    for mesh in ('tri3fan', 'quad2', 'tet2', 'line3perm'):
        cfgs.append(dict(name='tables-history/%s' % mesh, fn=tables_history_config, kw=dict(mesh=mesh), opts=dict(timeout=600, follow_nominal=True)))
    return cfgs


META = dict(
    explanation='Histories of 2-4 operations on shared element / mapping / basis / mesh / solver objects with SYMBOLIC call arguments; the result of the '
                'last call is compared with the same call on freshly built objects as an identity decided by z3 for all argument values; operands '
                'are compared term by term before/after.  Covers the Legendre caches of ElementLinePp/QuadP, the Vandermonde cache of '
                'ElementGlobal, the hash-keyed Jacobian cache of MappingIsoparametric (same values in different shapes, different subsets, '
                'aliasing with CellBasis.dx), MappingAffine/basis lazy members, solver-factory closures, tag dictionaries.',
    symbolic='arguments of every call in the history (points, parameter vectors, options, translation), geometry',
    bounds=dict(histories='explicit list of 2-4 step histories (see configuration names); not all sequences over the pool'),
    outside=['bit-for-bit float identity', 'global RNG state', 'histories longer than 4 or over other object pools', 'cache-key collisions on arrays '
             'larger than the enumerated ones'],
    stubs=['Krylov / direct solver routine -> spy returning the keyword arguments it received'],
    assumptions=[],
    design_ref='DESIGN.md 4/C15',
)

if __name__ == '__main__':
    sys.exit(harness.main('C15', 'checks.c15', build_configs, META))
