"""Goal decision: portfolio with an escalating time ladder (DESIGN 2.5).

Members for an identity  x == 0:
  B-default : numerator polynomial != 0, z3 default solver
  A-default : shared-term form != 0 with 'denominator != 0' hypotheses, z3 default solver
  B-nlsat   : numerator polynomial != 0, qfnra-nlsat
Goals are asked WITHOUT the path condition first (open-set argument); only a bare `sat` is re-asked
under validity + path condition with nlsat.  `unknown` is inconclusive, never success.
"""
import time
import z3
from .sym import Sym, isnum, val, tosym, Fr
from . import zeval

LADDER_QUICK = (1500, 10000, 45000)
LADDER_THOROUGH = (2000, 20000, 120000)


def _solver(kind, ms):
    s = z3.Solver() if kind == 'default' else z3.Tactic('qfnra-nlsat').solver()
    s.set('timeout', int(ms))
    return s


class Verdict:
    __slots__ = ('verdict', 'member', 'time', 'env', 'stage', 'smt2')

    def __init__(self, verdict, member=None, time=0.0, env=None, stage='bare', smt2=None):
        self.verdict = verdict
        self.member = member
        self.time = time
        self.env = env
        self.stage = stage
        self.smt2 = smt2

    def as_dict(self):
        return dict(verdict=self.verdict, member=self.member, time=round(self.time, 3), stage=self.stage)


def run_members(members, ladder, want_smt2=False):
    """members: list of (name, kind, [formulas]).  First conclusive answer wins."""
    t0 = time.time()
    for ms in ladder:
        for name, kind, fs in members:
            s = _solver(kind, ms)
            s.add(*fs)
            r = str(s.check())
            if r in ('sat', 'unsat'):
                env = zeval.model_to_env(s.model()) if r == 'sat' else None
                smt2 = None
                if want_smt2 and time.time() - t0 < 2.0:
                    try:
                        smt2 = s.to_smt2()
                    except Exception:
                        smt2 = None
                return Verdict(r, name, time.time() - t0, env, smt2=smt2)
    return Verdict('unknown', None, time.time() - t0)


def decide_zero(x, ex, ladder=LADDER_QUICK, extra_hyps=(), use_pc_first=False, want_smt2=False):
    """Is the Sym ``x`` zero for all values (on the current path of explorer ``ex``)?

    Returns Verdict: 'unsat' = identity holds; 'sat' = counterexample env; 'unknown'."""
    x = tosym(x)
    if x.c is not None:
        return Verdict('unsat' if x.c == 0 else 'sat', 'constant', 0.0, {} if x.c != 0 else None,
                       stage='constant')
    hb = (ex.hyps_b() if ex else []) + list(extra_hyps)
    ha = (ex.hyps_a() if ex else []) + list(extra_hyps)
    pc = (ex.assume_list + ex.pc) if ex else []
    if not use_pc_first:
        members = [('B-default', 'default', [x.n != 0] + hb)]
        if x.d or ha:
            members.append(('A-default', 'default', [x.a != 0] + ha))
        members.append(('B-nlsat', 'nlsat', [x.n != 0] + hb))
        v = run_members(members, ladder, want_smt2)
        if v.verdict != 'sat':
            return v
        if ex is None:
            return v
        bare_env = v.env
    else:
        bare_env = None
    # second form: under validity, path condition and non-zero denominators
    full = [x.a != 0] + ha + pc
    v2 = run_members([('A-nlsat+pc', 'nlsat', full), ('A-default+pc', 'default', full)], ladder)
    v2.stage = 'with-path-condition'
    if v2.verdict != 'unknown':
        return v2
    # ground instances at reachability witnesses (decided by z3 on a ground formula); only ever
    # yields a counterexample *candidate*, which is replayed on the real code before it is reported
    env = ex.witness_env()
    if env is not None and not ex.rootvars:
        try:
            r = zeval.eval_exact(x.a, env)
            if r != 0:
                return Verdict('sat', 'ground-instance', v2.time, env, stage='ground-instance')
        except Exception:
            pass
    return Verdict('unknown', None, v2.time, bare_env, stage='with-path-condition')


def decide_within(x, ex, box, tol, ladder=LADDER_QUICK):
    """Tolerance query (few symbolic variables only): |x| <= tol for all values in the box (list of z3 constraints)."""
    x = tosym(x)
    hyps = list(box)
    if ex is not None:
        hyps += ex.hyps_a() + ex.assume_list + ex.pc
    t = z3.RealVal(Fr(tol))
    q = [z3.Or(x.a > t, x.a < -t)] + hyps
    v = run_members([('A-nlsat+tol', 'nlsat', q), ('A-default+tol', 'default', q)], ladder)
    v.stage = 'tolerance %g on box' % tol
    return v


def decide_valid(f, ex, ladder=LADDER_QUICK, extra_hyps=(), kinds=('default', 'nlsat')):
    """Is formula ``f`` valid under assumptions + path condition + side conditions?"""
    if isinstance(f, bool):
        return Verdict('unsat' if f else 'sat', 'constant', 0.0, {} if not f else None, stage='constant')
    hyps = list(extra_hyps)
    if ex is not None:
        hyps += ex.hyps_a() + ex.assume_list + ex.pc
    q = [z3.Not(f)] + hyps
    v = run_members([(k + '+pc', k, q) for k in kinds], ladder)
    v.stage = 'with-path-condition'
    return v


def decide_sat(f, ex, ladder=LADDER_QUICK, extra_hyps=(), kinds=('nlsat', 'default'), use_pc=True):
    """Existential goal: is ``f`` satisfiable (under assumptions + path condition)?"""
    if isinstance(f, bool):
        return Verdict('sat' if f else 'unsat', 'constant', 0.0, {}, stage='constant')
    hyps = list(extra_hyps)
    if ex is not None:
        hyps += ex.hyps_a()
        if use_pc:
            hyps += ex.assume_list + ex.pc
    v = run_members([(k, k, [f] + hyps) for k in kinds], ladder)
    return v


def cvc5_check(smt2_text, timeout_ms=10000):
    """Second-opinion run of an SMT-LIB2 dump with the cvc5 Python API.  Returns sat/unsat/unknown."""
    import cvc5
    tm = cvc5.TermManager()
    slv = cvc5.Solver(tm)
    slv.setOption('tlimit-per', str(int(timeout_ms)))
    slv.setOption('nl-cov', 'true')
    slv.setLogic('QF_NRA')
    parser = cvc5.InputParser(slv)
    text = '\n'.join(l for l in smt2_text.splitlines() if not l.startswith('(set-logic') and not l.startswith('(set-info'))
    if '(check-sat)' not in text:
        text += '\n(check-sat)\n'
    parser.setStringInput(cvc5.InputLanguage.SMT_LIB_2_6, text, 'q')
    sm = parser.getSymbolManager()
    res = 'unknown'
    while True:
        cmd = parser.nextCommand()
        if cmd.isNull():
            break
        out = str(cmd.invoke(slv, sm)).strip()
        if out in ('sat', 'unsat', 'unknown'):
            res = out
    return res
