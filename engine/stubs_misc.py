"""Small run-time adapters installed around the library in symbolic mode (each is listed in the evidence).

exact_quadrature : skfem.assembly.basis.abstract_basis.get_quadrature returns the SAME tables, lifted to exact rationals in
                   object arrays, so that reference basis values are computed in exact arithmetic from the start (otherwise
                   products of float basis values are rounded in float64 before they meet a symbol and bilinearity only holds
                   to 1e-17 - observed on the Stokes mass block).
invF_float_fold  : MappingIsoparametric.invF on fully NUMERIC input (numeric geometry and points) is executed by the real float64
                   code (its Newton iteration only converges in the limit; in exact rationals the iterates explode to thousands
                   of digits) and the result is lifted.  Symbolic input still runs the real Newton loop symbolically.
hash_tobytes     : object arrays have no meaningful ``tobytes``; MappingIsoparametric caches on hash_args(bytes).  The stub gives
                   structural bytes of the flattened terms (shape not included - mirroring the float behaviour).
"""
import sys
import numpy as np

from .sym import Sym, Fr, Ctx, const_arr
from . import symnp

_saved = {}


def _exact_arr(x):
    x = np.asarray(x)
    if x.dtype == object:
        return x
    out = np.empty(x.shape, dtype=object)
    for idx in np.ndindex(*x.shape):
        out[idx] = Sym(c=Fr(float(x[idx])))
    return out


def install_exact_quadrature():
    import importlib
    ab = importlib.import_module("skfem.assembly.basis.abstract_basis")
    if 'gq' in _saved:
        return
    orig = ab.get_quadrature
    _saved['gq'] = orig

    def get_quadrature(*a, **k):
        X, W = orig(*a, **k)
        return _exact_arr(X), _exact_arr(W)
    ab.get_quadrature = get_quadrature


def _all_const(x):
    x = np.asarray(x)
    if x.dtype != object:
        return True
    return all((not isinstance(v, Sym)) or v.c is not None for v in x.ravel())


def _to_float(x):
    x = np.asarray(x)
    if x.dtype != object:
        return x
    return np.array([float(v) for v in x.ravel()], dtype=float).reshape(x.shape)


def install_invF_float_fold():
    import dataclasses
    import importlib
    mi = importlib.import_module("skfem.mapping.mapping_isoparametric")
    if 'invF' in _saved:
        return
    orig = mi.MappingIsoparametric.invF
    _saved['invF'] = orig

    def invF(self, x, tind=None, **kw):
        if isinstance(x, np.ndarray) and (x.dtype == object or self.mesh.doflocs.dtype == object) \
                and _all_const(x) and _all_const(self.mesh.doflocs):
            inst = dict(symnp._installed)
            symnp.uninstall()
            try:
                m2 = dataclasses.replace(self.mesh, doflocs=_to_float(self.mesh.doflocs))
                twin = type(self)(m2, self.elem, self.bndelem)
                Y = orig(twin, _to_float(x), tind=tind, **kw)
            finally:
                symnp.install()
            return const_arr(Y)
        return orig(self, x, tind=tind, **kw)
    mi.MappingIsoparametric.invF = invF


def install_hash_tobytes():
    import importlib
    gu = importlib.import_module("skfem.generic_utils")
    if 'hash_args' in _saved:
        return
    orig = gu.hash_args
    _saved['hash_args'] = orig

    def hash_args(*args):
        # the REAL hash_args runs; symbolic arrays are replaced by float surrogates of the same shape whose entries encode the
        # terms (equal terms <-> equal numbers), because ndarray.tobytes() of an object array would hash pointers
        sur = []
        for arg in args:
            if isinstance(arg, np.ndarray) and arg.dtype == object:
                flat = [float(hash((('t', v.a.get_id()) if v.c is None else ('c', v.c)) if isinstance(v, Sym) else ('v', v)) % (2 ** 52))
                        for v in arg.ravel()]
                sur.append(np.array(flat, dtype=np.float64).reshape(arg.shape))
            else:
                sur.append(arg)
        return orig(*sur)
    gu.hash_args = hash_args
    for k, m in list(sys.modules.items()):
        if k.startswith('skfem') and m is not None and getattr(m, 'hash_args', None) is orig:
            m.hash_args = hash_args


def install_all():
    install_exact_quadrature()
    install_invF_float_fold()
    install_hash_tobytes()
    return ['hash_args: symbolic arrays are replaced by float surrogate arrays of the same shape encoding the terms; the real hash_args then runs',
            'get_quadrature -> same tables lifted to exact rationals (object arrays)',
            'MappingIsoparametric.invF on fully numeric input -> executed in float64, result lifted']


class plain_numpy:
    """Context manager: run the library as shipped (float64 NumPy, no proxy, no adapters) inside a symbolic configuration."""

    def __enter__(self):
        import importlib
        self._inst = dict(symnp._installed)
        symnp.uninstall()
        self._had = dict(_saved)
        if 'gq' in _saved:
            importlib.import_module('skfem.assembly.basis.abstract_basis').get_quadrature = _saved['gq']
        if 'invF' in _saved:
            importlib.import_module('skfem.mapping.mapping_isoparametric').MappingIsoparametric.invF = _saved['invF']
        if 'hash_args' in _saved:
            cur = importlib.import_module('skfem.generic_utils').hash_args
            for k, m in list(sys.modules.items()):
                if k.startswith('skfem') and m is not None and getattr(m, 'hash_args', None) is cur:
                    m.hash_args = _saved['hash_args']
        _saved.clear()
        return self

    def __exit__(self, *a):
        if self._inst:
            symnp.install()
        if 'gq' in self._had:
            install_exact_quadrature()
        if 'invF' in self._had:
            install_invF_float_fold()
        if 'hash_args' in self._had:
            install_hash_tobytes()
        return False


# ---- row-wise unique of coordinate arrays (Mesh._remove_duplicate_nodes / __add__ / __matmul__) -------------------------------------
class _Rows(np.ndarray):
    """Object array of points (one row per point) that remembers it may be viewed as one structured item per row."""

    def view(self, *args, **kw):
        dt = args[0] if args else kw.get('dtype')
        # tmp.view([('', tmp.dtype)] * ncols) or an opaque item of the size of one row: "one comparable item per row"
        one_item_per_row = isinstance(dt, list)
        if not one_item_per_row and dt is not None and not isinstance(dt, type):
            try:
                one_item_per_row = np.dtype(dt).itemsize == self.dtype.itemsize * self.shape[1]
            except Exception:   # noqa
                one_item_per_row = False
        if one_item_per_row:
            return np.ndarray.view(self, _RowKeys)
        return np.ndarray.view(self, *args, **kw)


class _RowKeys(np.ndarray):
    pass


def install_row_unique(h):
    """Environment model, symbolic mode only: np.ascontiguousarray(p.T).view(<one field per column>) followed by
    np.unique(..., return_index=True, return_inverse=True) is NumPy's idiom for 'distinct rows in lexicographic order'.  Object arrays
    cannot be viewed as structured items, so the same CONTRACT is provided on symbolic rows: rows are compared column by column with the
    symbolic comparisons of their entries (each comparison is a branch of the explorer), the result is (sorted distinct rows, index of
    the first occurrence of each, inverse map).  ndarray.round(decimals=8) of symbolic entries is the identity (assumption recorded by
    the caller: coordinates are multiples of 1e-8)."""
    import functools
    from . import symnp
    from .sym import Sym, tosym
    P = symnp.NPProxy
    if getattr(P, '_row_unique', False):
        return
    P._row_unique = True
    h.stub('np.ascontiguousarray(p.T).view(struct) + np.unique(return_index, return_inverse) on symbolic points -> distinct rows in '
           'lexicographic order decided by symbolic comparisons (same contract); Sym.rint = identity (coordinates assumed multiples of 1e-8)')
    orig_asc = P.ascontiguousarray
    orig_unique = getattr(P, 'unique', None)

    def ascontiguousarray(self, a, dtype=None, **kw):
        out = orig_asc(self, a, dtype=dtype, **kw)
        if isinstance(out, np.ndarray) and out.dtype == object and out.ndim == 2:
            return out.view(_Rows)
        return out

    def unique(self, a, *args, **kw):
        if isinstance(a, _RowKeys):
            rows = [list(np.ndarray.view(a, np.ndarray)[i]) for i in range(a.shape[0])]

            def cmp(i, j):
                for x, y in zip(rows[i], rows[j]):
                    sx, sy = tosym(x), tosym(y)
                    if sx is sy:
                        continue
                    if bool(sx == sy):
                        continue
                    return -1 if bool(sx < sy) else 1
                return 0
            order = sorted(range(len(rows)), key=functools.cmp_to_key(lambda i, j: cmp(i, j) or (i - j)))
            uniq, first, inverse = [], [], [0] * len(rows)
            for i in order:
                if uniq and cmp(uniq[-1], i) == 0:
                    inverse[i] = len(uniq) - 1
                    first[-1] = min(first[-1], i)
                else:
                    uniq.append(i)
                    first.append(i)
                    inverse[i] = len(uniq) - 1
            res = [np.array([rows[i] for i in uniq], dtype=object)]
            if kw.get('return_index'):
                res.append(np.array(first, dtype=np.int64))
            if kw.get('return_inverse'):
                res.append(np.array(inverse, dtype=np.int64))
            return tuple(res) if len(res) > 1 else res[0]
        if orig_unique is not None:
            return orig_unique(self, a, *args, **kw)
        return np.unique(a, *args, **kw)
    P.ascontiguousarray = ascontiguousarray
    P.unique = unique
    if not hasattr(Sym, 'rint'):
        Sym.rint = lambda s: s
