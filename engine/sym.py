"""Symbolic scalar for running scikit-fem's NumPy code on solver terms.

A ``Sym`` lives in ``dtype=object`` arrays.  It carries two representations (DESIGN 2.1):
  a : the term exactly as the library built it, divisions kept as z3 ``/``  (form A)
  n/d: numerator polynomial over a multiset of denominator atoms             (form B)
Comparisons return ``SymBool``; ``bool()`` of it asks the current path explorer (``Ctx.cur``).
"""
import fractions
import numpy as np
import z3

Fr = fractions.Fraction
ONE = z3.RealVal(1)
ZERO = z3.RealVal(0)


class Ctx:
    cur = None          # current explorer (engine.explorer.Explorer)
    snap = True         # float literal snapping policy (DESIGN 2.1)


def const(x):
    """Lift a Python/NumPy number to an exact z3 rational (None if not a number)."""
    if isinstance(x, (bool, np.bool_)):
        return z3.RealVal(int(x))
    if isinstance(x, (int, np.integer)):
        return z3.RealVal(int(x))
    if isinstance(x, (float, np.floating)):
        x = float(x)
        fr = Fr(x)
        if Ctx.snap:
            sn = fr.limit_denominator(10 ** 4)
            if sn == fr or abs(float(sn) - x) <= 8 * np.spacing(abs(x)):
                fr = sn
        return z3.RealVal(fr)
    if isinstance(x, Fr):
        return z3.RealVal(x)
    return None


def isnum(e):
    return z3.is_rational_value(e)


def val(e):
    return Fr(e.numerator_as_long(), e.denominator_as_long())


class Sym:
    __slots__ = ('a', 'n', 'd')

    def __init__(self, a, n=None, d=None):
        self.a = a
        self.n = a if n is None else n
        self.d = d or {}

    @staticmethod
    def lift(x):
        if isinstance(x, Sym):
            return x
        c = const(x)
        return None if c is None else Sym(c)

    @staticmethod
    def var(name):
        return Sym(z3.Real(name))

    def is_const(self):
        return isnum(self.a)

    def value(self):
        return val(self.a)

    def den(self):
        r = ONE
        for a, k in self.d.values():
            for _ in range(k):
                r = r * a
        return r

    @staticmethod
    def _scale(n, have, want):
        for i, (a, k) in want.items():
            for _ in range(k - have.get(i, (a, 0))[1]):
                n = n * a
        return n

    def __add__(s, o):
        o = Sym.lift(o)
        if o is None:
            return NotImplemented
        sa, oa = isnum(s.a), isnum(o.a)
        if sa and val(s.a) == 0:
            return o
        if oa and val(o.a) == 0:
            return s
        if sa and oa:
            return Sym(z3.RealVal(val(s.a) + val(o.a)))
        if not s.d and not o.d:
            return Sym(s.a + o.a, s.n + o.n)
        l = dict(s.d)
        for i, (a, k) in o.d.items():
            if i not in l or l[i][1] < k:
                l[i] = (a, k)
        return Sym(s.a + o.a, Sym._scale(s.n, s.d, l) + Sym._scale(o.n, o.d, l), l)

    __radd__ = __add__

    def __neg__(s):
        if isnum(s.a):
            return Sym(z3.RealVal(-val(s.a)))
        return Sym(-s.a, -s.n, s.d)

    def __pos__(s):
        return s

    def __sub__(s, o):
        o = Sym.lift(o)
        return NotImplemented if o is None else s + (-o)

    def __rsub__(s, o):
        o = Sym.lift(o)
        return NotImplemented if o is None else o + (-s)

    def __mul__(s, o):
        o = Sym.lift(o)
        if o is None:
            return NotImplemented
        sa, oa = isnum(s.a), isnum(o.a)
        if sa and oa:
            return Sym(z3.RealVal(val(s.a) * val(o.a)))
        for x, y in ((s, o), (o, s)):
            if isnum(x.a):
                v = val(x.a)
                if v == 0:
                    return Sym(ZERO)
                if v == 1:
                    return y
        if not s.d and not o.d:
            return Sym(s.a * o.a, s.n * o.n)
        l = dict(s.d)
        for i, (a, k) in o.d.items():
            l[i] = (a, l.get(i, (a, 0))[1] + k)
        return Sym(s.a * o.a, s.n * o.n, l)

    __rmul__ = __mul__

    def inv(s):
        if isnum(s.a):
            return Sym(z3.RealVal(1 / val(s.a)))
        if Ctx.cur is not None:
            Ctx.cur.note_den(s)
        return Sym(ONE / s.a, s.den(), {s.n.get_id(): (s.n, 1)})

    def __truediv__(s, o):
        o = Sym.lift(o)
        return NotImplemented if o is None else s * o.inv()

    def __rtruediv__(s, o):
        o = Sym.lift(o)
        return NotImplemented if o is None else o * s.inv()

    def __pow__(s, k):
        if isinstance(k, Sym) and k.is_const():
            k = float(k.value())
        if isinstance(k, (float, np.floating)) and float(k).is_integer():
            k = int(k)
        if isinstance(k, (int, np.integer)):
            if k < 0:
                return (s ** (-int(k))).inv()
            r = Sym(ONE)
            for _ in range(int(k)):
                r = r * s
            return r
        if isinstance(k, (float, np.floating)):
            if k == 0.5:
                return s.sqrt()
            if abs(k - 1 / 3) < 1e-15:
                return root(s, 3)
        return NotImplemented

    def __rpow__(s, b):
        if s.is_const() and s.value().denominator == 1:
            return Sym.lift(b) ** int(s.value())
        return NotImplemented

    def sqrt(s):
        return root(s, 2)

    def __abs__(s):
        if isnum(s.a):
            return Sym(z3.RealVal(abs(val(s.a))))
        return s if bool(s >= 0) else -s

    def __round__(s, nd=None):
        return s

    def __float__(s):
        if isnum(s.a):
            return float(val(s.a))
        raise TypeError('float() of a symbolic value')

    def _cmp(s, o, op):
        o = Sym.lift(o)
        if o is None:
            return NotImplemented
        if isnum(s.a) and isnum(o.a):
            return bool(op(val(s.a), val(o.a)))
        cur = Ctx.cur
        if cur is not None:
            ra, rb = cur.rad.get(s.a.get_id()), cur.rad.get(o.a.get_id())
            if ra is not None and rb is not None and ra[1] == rb[1]:
                # monotonicity of the k-th root on [0, oo): compare radicands
                return SymBool(op(ra[0].a, rb[0].a))
        return SymBool(op(s.a, o.a))

    def __lt__(s, o):
        return s._cmp(o, lambda a, b: a < b)

    def __le__(s, o):
        return s._cmp(o, lambda a, b: a <= b)

    def __gt__(s, o):
        return s._cmp(o, lambda a, b: a > b)

    def __ge__(s, o):
        return s._cmp(o, lambda a, b: a >= b)

    def __eq__(s, o):
        return s._cmp(o, lambda a, b: a == b)

    def __ne__(s, o):
        return s._cmp(o, lambda a, b: a != b)

    __hash__ = None

    def __repr__(s):
        t = str(z3.simplify(s.a))
        return 'Sym(%s)' % (t if len(t) < 80 else t[:77] + '...')

    # numpy calls these on object arrays
    def conjugate(s):
        return s

    conj = conjugate

    @property
    def real(s):
        return s

    @property
    def imag(s):
        return Sym(ZERO)


def root(s, k):
    if isnum(s.a):
        v = val(s.a)
        for cand in (Fr(round(float(v) ** (1.0 / k) * 10 ** 6), 10 ** 6).limit_denominator(10 ** 4),):
            if cand ** k == v:
                return Sym(z3.RealVal(cand))
    if Ctx.cur is None:
        raise RuntimeError('root of a symbolic value outside an explorer')
    return Ctx.cur.root(s, k)


class SymBool:
    __slots__ = ('e',)

    def __init__(self, e):
        self.e = e

    def __bool__(self):
        if Ctx.cur is None:
            raise RuntimeError('branch on a symbolic condition outside an explorer')
        return Ctx.cur.decide(self.e)

    # logical combinations decide eagerly (only the library's own branches create paths)
    def __and__(self, o):
        return bool(self) and bool(o)

    __rand__ = __and__
    __mul__ = __and__
    __rmul__ = __and__

    def __or__(self, o):
        return bool(self) or bool(o)

    __ror__ = __or__
    __add__ = __or__
    __radd__ = __or__

    def __invert__(self):
        return not bool(self)

    def __repr__(self):
        return 'SymBool(%s)' % self.e


def symarr(prefix, shape):
    """Array of fresh symbolic reals named prefix_i_j..."""
    if isinstance(shape, int):
        shape = (shape,)
    a = np.empty(shape, dtype=object)
    for idx in np.ndindex(*shape):
        a[idx] = Sym(z3.Real(prefix + ''.join('_%d' % i for i in idx)))
    return a


def const_arr(x):
    x = np.asarray(x)
    a = np.empty(x.shape, dtype=object)
    for idx in np.ndindex(*x.shape):
        v = x[idx]
        a[idx] = v if isinstance(v, Sym) else Sym(const(v))
    return a


def is_sym_array(x):
    return isinstance(x, np.ndarray) and x.dtype == object


def tosym(x):
    s = Sym.lift(x)
    if s is None:
        raise TypeError('cannot lift %r' % (x,))
    return s


def flat_syms(x):
    """Iterate (index, Sym) over an array/scalar."""
    if isinstance(x, np.ndarray):
        for idx in np.ndindex(*x.shape):
            yield idx, tosym(x[idx])
    else:
        yield (), tosym(x)
