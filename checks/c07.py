"""C07 - DOF lookup returns exactly the DOFs that control the selected entities.

Symbolic: coefficient vector, point on the facet / in the cell, all vertex coordinates (2-D; 3-D one free vertex or numeric), the
threshold of a selector predicate (midpoint comparisons fork).
Real code: AbstractBasis.get_dofs/complement_dofs, Dofs.get_facet_dofs/get_element_dofs/get_vertex_dofs/_dofnames_to_rows,
DofsView.flatten/keep/drop/all, Mesh.normalize_facets/elements/nodes, facets_satisfying, _expand_facets, FacetBasis/CellBasis.
  soundness : x[D] = 0  =>  trace of u_h on every selected facet (value / normal / tangential part; C1: value and gradient) is
              identically zero at a symbolic facet point
  minimality: every k in D changes the trace somewhere (existential), for families with one functional per DOF
  structure : D == DOFs attached to the selected facets and to their vertices and edges, by the harness' own closure
  selectors : predicate / tag name / list / set forms agree with the index array entailed by the path condition
"""
import itertools
import sys
import warnings

import numpy as np

from engine import harness
from engine.harness import Skip
from engine.sym import Sym, tosym
from engine.zoo import make_mesh, topo
from checks.c09 import make_elem, family
from checks.c03 import facet_geometry, side_values_direct, comp_families, renumbered


def dof_names(e, dim, Nb_hint=None):
    """name per local index (nodal, edge(3-D), facet, interior order), names listed per kind nodal, facet, edge, interior."""
    dn = list(e.dofnames)
    rd = e.refdom
    off = {'nodal': 0, 'facet': e.nodal_dofs, 'edge': e.nodal_dofs + e.facet_dofs,
           'interior': e.nodal_dofs + e.facet_dofs + (e.edge_dofs if dim == 3 else 0)}
    out = []
    for a in range(rd.nnodes):
        out += [dn[off['nodal'] + k] for k in range(e.nodal_dofs)]
    if dim == 3:
        for a in range(rd.nedges):
            out += [dn[off['edge'] + k] for k in range(e.edge_dofs)]
    if dim >= 2:
        for a in range(rd.nfacets):
            out += [dn[off['facet'] + k] for k in range(e.facet_dofs)]
    out += [dn[off['interior'] + k] for k in range(e.interior_dofs)]
    return out


def own_closure(m, dofs, F):
    """DOFs attached to facets F, their vertices and (3-D) their edges - from the mesh tables, independently of _expand_facets."""
    fac = np.asarray(m.facets)
    D = set()
    verts = set(fac[:, F].ravel().tolist()) if len(F) else set()
    for v in verts:
        D |= set(dofs.nodal_dofs[:, v].tolist())
    if dofs.facet_dofs is not None and dofs.facet_dofs.size:
        for f in F:
            D |= set(dofs.facet_dofs[:, f].tolist())
    if m.p.shape[0] == 3 and dofs.edge_dofs is not None and dofs.edge_dofs.size:
        edges = np.asarray(m.edges)
        for f in F:
            fv = set(fac[:, f].tolist())
            nfv = len(fv)
            for ei in range(edges.shape[1]):
                a, b = edges[:, ei]
                if a in fv and b in fv:
                    if nfv == 4:
                        # quadrilateral face: an edge, not a diagonal (consecutive in the cyclic facet order)
                        order = fac[:, f].tolist()
                        ia, ib = order.index(a), order.index(b)
                        if (ia - ib) % 4 not in (1, 3):
                            continue
                    D |= set(dofs.edge_dofs[:, ei].tolist())
    return D


def trace_zero(h, tag, m, e, basis_N, ed, x, F, s, fams, c1, via, point_mid=False):
    import skfem as S
    dim = m.p.shape[0]
    if via == 'fb':
        W = h.const(np.ones(1))
        fb = S.FacetBasis(m, e, facets=np.asarray(F, dtype=np.int32), quadrature=(s, W))
        u = fb.interpolate(x)
        u = u if isinstance(u, tuple) else (u,)
        for k, f in enumerate(fb.find):
            xg, T, n, lam = facet_geometry(h, m, f, s)
            vals = [np.asarray(c.value)[..., k, 0] for c in u]
            grads = [np.asarray(c.grad)[..., k, 0] if c.grad is not None else None for c in u]
            yield f, vals, grads, T, n
    else:
        mapping = m._mapping()
        for f in F:
            xg, T, n, lam = facet_geometry(h, m, f, s)
            vals, grads, _ = side_values_direct(h, m, e, mapping, ed, x, f, 0, lam)
            yield f, vals, grads, T, n


def trace_components(fams, dim, vals, grads, T, n, c1):
    out = []
    for c in range(len(vals)):
        v = np.asarray(vals[c])
        kind = fams[c]
        if kind == 'h1':
            out += list(np.atleast_1d(v).ravel())
            if c1 and grads[c] is not None:
                out += list(np.asarray(grads[c]).ravel())
        elif kind == 'hdiv':
            out.append(sum(v[k] * n[k] for k in range(dim)))
        elif kind == 'hcurl':
            for Tj in T:
                out.append(sum(v[k] * Tj[k] for k in range(dim)))
    return out


def facets_config(h, mesh, spec, subsets, free=None, via='fb', c1=False, minimal=True, pt=None, point='sym'):
    import skfem as S
    from skfem.assembly import Dofs
    with warnings.catch_warnings():
        warnings.simplefilter('ignore')
        m = make_mesh(h, mesh, free=free, pt=pt)
        e = make_elem(spec)
        dim = m.p.shape[0]
        bdim = dim - 1
        basis = S.CellBasis(m, e, intorder=1) if m.refdom.__name__ in ('RefQuad', 'RefHex') else S.CellBasis(m, e)
        N = int(basis.N)
        ed = np.asarray(basis.element_dofs)
        fams = comp_families(e)
        names_local = dof_names(e, dim)
        gname = {}
        for c in range(ed.shape[1]):
            for i in range(ed.shape[0]):
                gname[int(ed[i, c])] = names_local[i] if i < len(names_local) else '?'
        if point == 'sym':
            s = h.sym('s', (bdim, 1), nominal=np.array([[0.3125], [0.21875]])[:bdim]) if bdim > 0 else np.zeros((0, 1))
            if h.sym_mode and bdim > 0 and via != 'fb':
                for j in range(bdim):
                    h.assume(h.And(s[j, 0] > 0, s[j, 0] < 1))
        else:
            s = np.array([[h.frac(1, 2 if m.brefdom.__name__ != 'RefTri' else 3)] for _ in range(bdim)], dtype=object if h.sym_mode else float)
        xfree = h.sym('x', (N,), nominal=(np.arange(N) * 5 % 7) - 2.5)
        bnd = np.asarray(m.boundary_facets())
        allf = np.arange(m.facets.shape[1])
        h.sample(dict(mesh=mesh, element=spec, N=N, facet_subsets=[list(map(int, F)) for F in subsets][:6]))
        # argument-free query == facets with a single neighbour
        D0 = np.asarray(basis.get_dofs().flatten())
        h.concrete('argument-free query == query with the facets that have one neighbour',
                   np.array_equal(np.sort(D0), np.sort(np.asarray(basis.get_dofs(np.nonzero(np.asarray(m.f2t)[1] == -1)[0].astype(np.int32)).flatten()))))
        h.concrete('complement query == set complement', sorted(np.asarray(basis.complement_dofs(basis.get_dofs())).tolist())
                   == sorted(set(range(N)) - set(D0.tolist())))
        for F in subsets:
            F = np.asarray(F, dtype=np.int64)
            tag = 'F=%s' % ','.join(map(str, F))
            view = basis.get_dofs(F.astype(np.int32))
            D = np.asarray(view.flatten())
            h.concrete('%s: sorted, unique, in range' % tag, np.array_equal(D, np.unique(D)) and (len(D) == 0 or (D.min() >= 0 and D.max() < N)))
            own = own_closure(m, basis.dofs, F)
            h.concrete('%s: D == DOFs attached to the facets, their vertices and edges' % tag, set(D.tolist()) == own,
                       'extra %s missing %s' % (sorted(set(D.tolist()) - own)[:6], sorted(own - set(D.tolist()))[:6]))
            # name filters
            allnames = sorted(set(gname.values()))
            for nm in allnames[:3]:
                Dk = set(np.asarray(basis.get_dofs(F.astype(np.int32)).keep(nm).flatten()).tolist())
                Dd = set(np.asarray(basis.get_dofs(F.astype(np.int32)).drop(nm).flatten()).tolist())
                Ds = set(np.asarray(basis.get_dofs(F.astype(np.int32), skip=[nm]).flatten()).tolist())
                want_keep = {g for g in D.tolist() if gname[g] == nm}
                h.concrete('%s: keep(%s)' % (tag, nm), Dk == want_keep, '%s vs %s' % (sorted(Dk)[:8], sorted(want_keep)[:8]))
                h.concrete('%s: drop(%s) == skip=[%s] == the rest' % (tag, nm, nm), Dd == set(D.tolist()) - want_keep and Ds == Dd)
            # the trace as a function of ALL coefficients, built once per facet set; soundness and minimality by substitution
            comps_all = []
            for f, vals, grads, T, n in trace_zero(h, tag, m, e, N, ed, xfree, F, s, fams, c1, via):
                for ci, v in enumerate(trace_components(fams, dim, vals, grads, T, n, c1)):
                    comps_all.append((f, ci, v))
            Dset = set(int(g) for g in D)
            if h.sym_mode:
                import z3
                zero_sub = [(xfree[g].a, z3.RealVal(0)) for g in Dset]
                for f, ci, v in comps_all:
                    v = tosym(v)
                    vs = v if (v.c is not None or not zero_sub) else Sym(z3.substitute(v.a, *zero_sub))
                    h.zero('%s: facet %d: trace component %d vanishes when the returned DOFs vanish' % (tag, f, ci), vs)
                if minimal and len(D) <= 14:
                    for g in D:
                        unit = [(xfree[j].a, z3.RealVal(1 if j == g else 0)) for j in range(N)]
                        tot = 0
                        for f, ci, v in comps_all:
                            v = tosym(v)
                            vs = v if v.c is not None else Sym(z3.substitute(v.a, *unit))
                            tot = tot + vs * vs
                        h.nonzero_somewhere('%s: DOF %d changes the trace somewhere' % (tag, g), tot)
            else:
                x = np.array(xfree, dtype=float)
                for g in D:
                    x[g] = 0.0
                for f, vals, grads, T, n in trace_zero(h, tag, m, e, N, ed, x, F, s, fams, c1, via):
                    for ci, v in enumerate(trace_components(fams, dim, vals, grads, T, n, c1)):
                        h.zero('%s: facet %d: trace component %d vanishes when the returned DOFs vanish' % (tag, f, ci), v)
        if h.sym_mode and len(subsets):
            # canary: dropping one returned DOF must break soundness
            F = np.asarray(subsets[-1], dtype=np.int64)
            D = np.asarray(basis.get_dofs(F.astype(np.int32)).flatten())
            if len(D) and minimal:
                x = np.array(xfree, dtype=object)
                for g in D[1:]:
                    x[g] = 0 * x[g]
                tot = []
                for f, vals, grads, T, n in trace_zero(h, 'canary', m, e, N, ed, x, F, s, fams, c1, via):
                    tot += [tosym(v) for v in trace_components(fams, dim, vals, grads, T, n, c1)]
                h.canary('canary: one returned DOF left free', np.array(tot, dtype=object))


def selectors_config(h, mesh, spec, free=None):
    """Equivalent ways of naming a facet / cell / vertex set: predicate (forks on midpoint comparisons), tag name, list, set."""
    import skfem as S
    with warnings.catch_warnings():
        warnings.simplefilter('ignore')
        m = make_mesh(h, mesh, free=free)
        e = make_elem(spec)
        c = h.sym('c', (), nominal=0.53125)
        basis = S.CellBasis(m, e, intorder=1)
        N = int(basis.N)
        P = m.doflocs
        fac = np.asarray(m.facets)
        t = np.asarray(m.t)
        dim = P.shape[0]
        h.sample(dict(mesh=mesh, element=spec, selector='x[0] < c with symbolic c and geometry'))
        # facets by predicate
        Fsel = np.asarray(m.facets_satisfying(lambda x: x[0] < c))
        for f in range(fac.shape[1]):
            mid = sum(P[0, v] for v in fac[:, f]) / float(fac.shape[0])
            cond = mid < c
            h.valid('facet %d %s selected on this path' % (f, 'is' if f in Fsel else 'is not'), cond if f in Fsel else h.Not(cond))
        Dp = np.asarray(basis.get_dofs(lambda x: x[0] < c).flatten())
        Di = np.asarray(basis.get_dofs(Fsel.astype(np.int32)).flatten())
        h.concrete('predicate form == index form', np.array_equal(Dp, Di))
        mb = m.with_boundaries({'sel': Fsel.astype(np.int32), 'other': np.setdiff1d(np.arange(fac.shape[1]), Fsel).astype(np.int32)})
        bb = S.CellBasis(mb, e, intorder=1)
        h.concrete('tag name == index form', np.array_equal(np.asarray(bb.get_dofs('sel').flatten()), Di))
        both = np.asarray(bb.get_dofs({'sel', 'other'}).flatten())
        h.concrete('set of names == union', np.array_equal(both, np.asarray(bb.get_dofs(np.arange(fac.shape[1]).astype(np.int32)).flatten())))
        h.concrete('list [name, indices] == union', np.array_equal(np.asarray(bb.get_dofs(['sel', np.array([0], dtype=np.int32)]).flatten()),
                                                                np.asarray(bb.get_dofs(np.union1d(Fsel, [0]).astype(np.int32)).flatten())))
        # cells by predicate: every DOF of the selected cells, nothing else
        Esel = np.asarray(m.elements_satisfying(lambda x: x[0] < c))
        for k in range(t.shape[1]):
            mid = sum(P[0, v] for v in t[:, k]) / float(t.shape[0])
            cond = mid < c
            h.valid('cell %d %s selected on this path' % (k, 'is' if k in Esel else 'is not'), cond if k in Esel else h.Not(cond))
        De = set(np.asarray(basis.get_dofs(elements=Esel.astype(np.int32)).flatten()).tolist())
        want = set(np.asarray(basis.element_dofs)[:, Esel].ravel().tolist()) if len(Esel) else set()
        h.concrete('cell query == all DOFs of the selected cells', De == want)
        h.concrete('cell query by predicate == by index',
                   set(np.asarray(basis.get_dofs(elements=lambda x: x[0] < c).flatten()).tolist()) == De)
        # vertices
        Nsel = np.asarray(m.nodes_satisfying(lambda x: x[0] < c))
        for v in range(P.shape[1]):
            cond = P[0, v] < c
            h.valid('vertex %d %s selected on this path' % (v, 'is' if v in Nsel else 'is not'), cond if v in Nsel else h.Not(cond))
        Dn = set(np.asarray(basis.get_dofs(nodes=Nsel.astype(np.int32)).flatten()).tolist())
        wantn = set(basis.dofs.nodal_dofs[:, Nsel].ravel().tolist()) if len(Nsel) else set()
        h.concrete('vertex query == nodal DOFs of the selected vertices', Dn == wantn)
        # equivalent ways of naming the vertex set: predicate, list of arrays, set of single-vertex arrays
        asset = lambda D_: set(np.asarray(D_.flatten()).tolist())
        h.concrete('vertex query by predicate == by index', asset(basis.get_dofs(nodes=lambda x: x[0] < c)) == Dn)
        if len(Nsel) > 1:
            parts = [Nsel[:1].astype(np.int32), Nsel[1:].astype(np.int32)]
            h.concrete('vertex query by a list of index arrays == by index', asset(basis.get_dofs(nodes=parts)) == Dn)
            h.concrete('vertex query by [predicate, index array] == union',
                       asset(basis.get_dofs(nodes=[lambda x: x[0] < c, np.array([0], dtype=np.int32)])) ==
                       asset(basis.get_dofs(nodes=np.union1d(Nsel, [0]).astype(np.int32))))
        if not h.sym_mode or all(tosym(P[i, 0]).c is not None for i in range(P.shape[0])):
            # a vertex named by its coordinates (tuple): numeric vertex only (the library compares with a 1e-12 tolerance)
            v0 = tuple(float(tosym(P[i, 0]).c) if h.sym_mode else float(P[i, 0]) for i in range(P.shape[0]))
            h.concrete('vertex named by its coordinates == vertex 0', asset(basis.get_dofs(nodes=v0)) == asset(basis.get_dofs(nodes=np.array([0], dtype=np.int32))))


def cells_config(h, mesh, spec, cellsets, free=None):
    """get_dofs(elements=E): the function on the selected cells depends only on the returned DOFs (x[D]=0 => u_h = 0 there);
    name filters on cell queries."""
    import skfem as S
    with warnings.catch_warnings():
        warnings.simplefilter('ignore')
        m = make_mesh(h, mesh, free=free)
        e = make_elem(spec)
        dim = m.p.shape[0]
        iso = m.refdom.__name__ in ('RefQuad', 'RefHex')
        basis = S.CellBasis(m, e, intorder=1) if iso else S.CellBasis(m, e)
        N = int(basis.N)
        ed = np.asarray(basis.element_dofs)
        names_local = dof_names(e, dim)
        gname = {int(ed[i, c]): names_local[i] for c in range(ed.shape[1]) for i in range(ed.shape[0])}
        X = h.sym('X', (dim, 1), nominal=np.array([[0.28125], [0.21875], [0.1875]])[:dim])
        W = h.const(np.ones(1))
        xfree = h.sym('x', (N,), nominal=(np.arange(N) * 5 % 7) - 2.5)
        h.sample(dict(mesh=mesh, element=spec, N=N, cell_sets=[list(map(int, E)) for E in cellsets]))
        for E in cellsets:
            E = np.asarray(E, dtype=np.int32)
            tag = 'E=%s' % ','.join(map(str, E))
            D = np.asarray(basis.get_dofs(elements=E).flatten())
            h.concrete('%s: D == DOFs of the selected cells' % tag, set(D.tolist()) == set(ed[:, E].ravel().tolist()))
            for nm in sorted(set(gname.values()))[:4]:
                Dk = set(np.asarray(basis.get_dofs(elements=E).keep(nm).flatten()).tolist())
                Ds = set(np.asarray(basis.get_dofs(elements=E, skip=[nm]).flatten()).tolist())
                want_keep = {g for g in D.tolist() if gname[g] == nm}
                h.concrete('%s: keep(%s)' % (tag, nm), Dk == want_keep, '%s vs %s' % (sorted(Dk)[:8], sorted(want_keep)[:8]))
                h.concrete('%s: skip=[%s]' % (tag, nm), Ds == set(D.tolist()) - want_keep)
            if not iso:
                x = np.array(xfree, dtype=object if h.sym_mode else float)
                for g in D:
                    x[g] = 0 * x[g]
                cb = S.CellBasis(m, e, elements=E, quadrature=(X, W))
                u = cb.interpolate(x)
                for ci, c_ in enumerate(u if isinstance(u, tuple) else (u,)):
                    h.zero('%s: u_h (component %d) vanishes on the selected cells when the returned DOFs vanish' % (tag, ci), np.asarray(c_.value))


def history_config(h, mesh, spec):
    """Queries on one basis object do not influence each other (filtered query first, then the unfiltered one)."""
    import skfem as S
    with warnings.catch_warnings():
        warnings.simplefilter('ignore')
        m = make_mesh(h, mesh, free='none')
        e = make_elem(spec)
        b1, b2 = S.CellBasis(m, e), S.CellBasis(m, e)
        nm = list(e.dofnames)[0]
        t_ = h.sym('t', ())
        h.zero('trivial', t_ - t_)
        first = np.asarray(b1.get_dofs(skip=[nm]).flatten())
        second = np.asarray(b1.get_dofs().flatten())
        fresh = np.asarray(b2.get_dofs().flatten())
        h.concrete('get_dofs() after get_dofs(skip=[%s]) == on a fresh basis' % nm, np.array_equal(second, fresh))
        third = np.asarray(b1.get_dofs(skip=[nm]).flatten())
        h.concrete('get_dofs(skip) after get_dofs() == first filtered answer', np.array_equal(third, first))
        h.concrete('complement after the history == on a fresh basis',
                   np.array_equal(np.asarray(b1.complement_dofs(b1.get_dofs())), np.asarray(b2.complement_dofs(b2.get_dofs()))))
        fa = np.array([0], dtype=np.int32)
        a1 = np.asarray(b1.get_dofs(fa).flatten())
        a2 = np.asarray(b1.get_dofs(np.array([1], dtype=np.int32)).flatten())
        a3 = np.asarray(b1.get_dofs(fa).flatten())
        h.concrete('repeated facet query is stable', np.array_equal(a1, a3) and np.array_equal(a2, np.asarray(b2.get_dofs(np.array([1], dtype=np.int32)).flatten())))


def filters_config(h, mesh, spec, free=None):
    """Chains of name filters (keep / drop / skip=) are set operations on the DOF names: a chain returns exactly the DOFs of the
    unfiltered query whose name passes EVERY filter of the chain, whatever an earlier filter already removed."""
    import itertools
    import skfem as S
    with warnings.catch_warnings():
        warnings.simplefilter('ignore')
        m = make_mesh(h, mesh, free=free)
        e = make_elem(spec)
        dim = m.p.shape[0]
        basis = S.CellBasis(m, e, intorder=1) if m.refdom.__name__ in ('RefQuad', 'RefHex') else S.CellBasis(m, e)
        ed = np.asarray(basis.element_dofs)
        names_local = dof_names(e, dim)
        gname = {}
        for c in range(ed.shape[1]):
            for i in range(ed.shape[0]):
                gname[int(ed[i, c])] = names_local[i] if i < len(names_local) else '?'
        allnames = sorted(set(gname.values()))
        groups = [[n] for n in allnames] + ([allnames[:2], allnames[-2:]] if len(allnames) > 2 else [])
        filters = [(op, g) for op in ('keep', 'drop') for g in groups]
        t_ = h.sym('t', ())
        h.zero('trivial', t_ - t_)
        h.sample(dict(mesh=mesh, element=spec, names=allnames, filters=len(filters)))

        def passes(name, flt):
            op, g = flt
            return (name in g) if op == 'keep' else (name not in g)
        queries = [('boundary', lambda **kw: basis.get_dofs(**kw)),
                   ('facet0', lambda **kw: basis.get_dofs(np.array([0], dtype=np.int32), **kw)),
                   ('cell0', lambda **kw: basis.get_dofs(elements=np.array([0], dtype=np.int32), **kw))]
        for qname, q in queries:
            D = set(np.asarray(q().flatten()).tolist())
            bad = []
            n = 0
            for chain in itertools.chain(itertools.product(filters, repeat=2), itertools.product(filters[::3], repeat=3)):
                view = q()
                for op, g in chain:
                    view = getattr(view, op)(list(g) if len(g) > 1 else g[0])
                got = set(np.asarray(view.flatten()).tolist())
                want = {d for d in D if all(passes(gname[d], f) for f in chain)}
                n += 1
                if got != want:
                    bad.append('%s: extra %s missing %s' % ('.'.join('%s(%s)' % (op, ','.join(g)) for op, g in chain), sorted(got - want)[:4], sorted(want - got)[:4]))
            h.concrete('%s: all %d chains of 2-3 name filters == DOFs whose name passes every filter' % (qname, n), not bad, '; '.join(bad[:3]))
            # skip= of the query followed by a filter
            bad = []
            for g in groups:
                for flt in filters:
                    view = q(skip=list(g))
                    got = set(np.asarray(getattr(view, flt[0])(list(flt[1]) if len(flt[1]) > 1 else flt[1][0]).flatten()).tolist())
                    want = {d for d in D if gname[d] not in g and passes(gname[d], flt)}
                    if got != want:
                        bad.append('skip=%s.%s(%s)' % (g, flt[0], flt[1]))
            h.concrete('%s: skip= followed by a filter' % qname, not bad, '; '.join(bad[:3]))
            # the by-name dictionaries of a view (view.nodal / .facet / .edge / .interior) partition its DOFs by kind and name
            bad = []
            for chain in [()] + [(f,) for f in filters[:6]]:
                view = q()
                for op, g in chain:
                    view = getattr(view, op)(list(g) if len(g) > 1 else g[0])
                allD = set(np.asarray(view.flatten()).tolist())
                got = {}
                try:
                    for kind in ('nodal', 'facet', 'edge', 'interior'):
                        for nm, arr in getattr(view, kind).items():
                            got.setdefault(nm, set()).update(int(x) for x in np.asarray(arr).ravel())
                except Exception as ex_:   # noqa
                    bad.append('%s: %s raised %s' % (chain, kind, type(ex_).__name__))
                    continue
                want = {}
                for d in allD:
                    want.setdefault(gname[d], set()).add(d)
                if {k: v for k, v in got.items() if v} != want:
                    bad.append('%s: by-name %s vs %s' % (chain, {k: sorted(v)[:4] for k, v in got.items()}, {k: sorted(v)[:4] for k, v in want.items()}))
            h.concrete('%s: by-name dictionaries of the view == its DOFs grouped by name' % qname, not bad, '; '.join(bad[:2]))


def all_subsets(items, maxn=None):
    out = []
    for r in range(1, len(items) + 1):
        for c in itertools.combinations(items, r):
            out.append(list(c))
    return out


def build_configs(tier, seed):
    quick = tier == 'quick'
    rng = np.random.RandomState(seed)
    cfgs = []

    def add(name, fn, **kw):
        opts = dict(timeout=kw.pop('timeout', 400 if quick else 2400))
        cfgs.append(dict(name=name, fn=fn, kw=kw, opts=opts))

    def chunks(lst, n):
        return [lst[i:i + n] for i in range(0, len(lst), n)]
    # tri2: 5 facets (4 boundary + 1 interior): ALL 31 non-empty facet subsets
    import skfem
    tri_elems = ['ElementTriP1', 'ElementTriP2', 'ElementTriP3', 'ElementTriMini', 'ElementTriRT1', 'ElementTriN1', 'ElementTriBDM1',
                 'ElementVector(ElementTriP2())', 'ElementComposite(ElementVector(ElementTriP2()), ElementTriP1())',
                 'ElementComposite(ElementTriRT1(), ElementTriP0())'] + ([] if quick else ['ElementTriP4', 'ElementTriRT2', 'ElementTriN2', 'ElementTriCCR'])
    subs5 = all_subsets(list(range(5)))
    for spec in tri_elems:
        heavy = 'Composite' in spec or 'Vector' in spec or spec in ('ElementTriP3', 'ElementTriBDM1')
        for ci, ch in enumerate(chunks(subs5, 8)):
            if quick and heavy and ci % 2 == 1:
                continue
            # the first chunk with ALL vertex coordinates symbolic, the others with one free vertex (G(1))
            add('tri2/%s/subsets%d' % (spec.replace(' ', ''), ci), facets_config, mesh='tri2', spec=spec, subsets=ch,
                free=(None if (ci == 0 and not heavy) else [3]))
    add('tri2perm/ElementTriP2/subsets', facets_config, mesh='tri2perm', spec='ElementTriP2', subsets=subs5[::3])
    add('tri2/ElementTriCR/midpoint', facets_config, mesh='tri2', spec='ElementTriCR', subsets=subs5[::2], point='mid')
    for spec, c1 in (('ElementTriArgyris', True), ('ElementTriHermite', False)):
        add('tri2heron/%s' % spec, facets_config, mesh='tri2heron', spec=spec, subsets=[[0], [1, 3], [0, 1, 2, 3, 4]] if quick else subs5[::2],
            free='none', via='direct', c1=c1, minimal=False, timeout=900 if quick else 3000)
    # line
    add('line3perm/ElementLineP2', facets_config, mesh='line3perm', spec='ElementLineP2', subsets=all_subsets(list(range(4))), via='direct')
    # quads (direct traces)
    subs7 = all_subsets(list(range(7)))
    for spec in ['ElementQuad1', 'ElementQuad2'] + ([] if quick else ['ElementQuadS2', 'ElementQuadRT1']):
        sel = [subs7[i] for i in sorted(rng.choice(len(subs7), 10 if quick else 40, replace=False))] + [list(range(7))]
        add('quad2/%s' % spec, facets_config, mesh='quad2', spec=spec, subsets=sel, via='direct', free=[2])
    # tets: 7 facets; edge DOFs through f2e
    cname, p, t = topo('tet2')
    subs_t = all_subsets(list(range(7)))
    for spec in ['ElementTetP1', 'ElementTetP2', 'ElementTetRT1', 'ElementTetN1'] + ([] if quick else ['ElementTetCR', 'ElementTetCCR', 'ElementTetMini']):
        sel = [subs_t[i] for i in sorted(rng.choice(len(subs_t), 12 if quick else 60, replace=False))] + [[0, 1], list(range(7))]
        # Crouzeix-Raviart is non-conforming: its trace is determined by the facet DOF at the facet midpoint only
        # (all coordinates symbolic: no verdict within 25 min for P2 / RT1 / N1 / CCR - measured; one free vertex in both tiers for those)
        add('tet2/%s' % spec, facets_config, mesh='tet2', spec=spec, subsets=sel, free=[0] if (quick or spec in ('ElementTetP2', 'ElementTetRT1', 'ElementTetN1', 'ElementTetCCR')) else None, timeout=900 if quick else 3000,
            **(dict(point='mid') if spec == 'ElementTetCR' else {}))
    add('tet2/ElementComposite(ElementTetP2(),ElementTetP0())', facets_config, mesh='tet2', spec='ElementComposite(ElementTetP2(), ElementTetP0())',
        subsets=[[0], [3], [1, 2], [0, 1, 2, 3, 4, 5, 6]], free='none')
    # edge DOFs and facet DOFs from DIFFERENT components (local ordering nodal, edge, facet, interior)
    add('tet2/ElementComposite(ElementTetN1(),ElementTetRT1())', facets_config, mesh='tet2', spec='ElementComposite(ElementTetN1(), ElementTetRT1())',
        subsets=[[0], [3], [1, 2], [0, 1, 2, 3, 4, 5, 6]], free='none', timeout=900)
    add('tet2/ElementComposite(ElementTetP2(),ElementTetRT1())', facets_config, mesh='tet2', spec='ElementComposite(ElementTetP2(), ElementTetRT1())',
        subsets=[[0], [2, 5]], free='none', timeout=900)
    # chains of name filters
    for mesh, spec, free in [('tri2heron', 'ElementTriArgyris', 'none'), ('tri2', 'ElementComposite(ElementVector(ElementTriP2()), ElementTriP1())', 'none'),
                             ('tet2', 'ElementComposite(ElementTetP2(), ElementTetRT1(), ElementTetP0())', 'none'),
                             ('tri2heron', 'ElementTriMorley', 'none')]:
        add('filters/%s/%s' % (mesh, spec.replace(' ', '')), filters_config, mesh=mesh, spec=spec, free=free)
    # hexes (numeric geometry, direct traces): 11 facets
    for spec in ['ElementHex1', 'ElementHexS2'] + ([] if quick else ['ElementHex2']):
        sel = [sorted(rng.choice(11, k, replace=False).tolist()) for k in ((1, 2, 3, 5) if quick else (1, 1, 2, 2, 3, 4, 5, 7))] + [list(range(11))]
        add('hex2/%s' % spec, facets_config, mesh='hex2', spec=spec, subsets=sel, via='direct', free='none', timeout=900 if quick else 3000,
            minimal=not quick)
    # selector equivalence with symbolic geometry and threshold
    add('selectors/tri2/ElementTriP2/free=0,3', selectors_config, mesh='tri2', spec='ElementTriP2', free=[0, 3])
    if not quick:
        add('selectors/tri2/ElementTriP2', selectors_config, mesh='tri2', spec='ElementTriP2', timeout=3000)
        add('selectors/tri2/ElementTriRT1/free=0,3', selectors_config, mesh='tri2', spec='ElementTriRT1', free=[0, 3], timeout=3000)
    add('selectors/line3perm/ElementLineP2', selectors_config, mesh='line3perm', spec='ElementLineP2')
    if not quick:
        add('selectors/tri3fan/ElementTriP2', selectors_config, mesh='tri3fan', spec='ElementTriP2')
    # cell queries and name filters
    add('cells/tri3fan/ElementTriP2', cells_config, mesh='tri3fan', spec='ElementTriP2', cellsets=all_subsets([0, 1, 2]))
    add('cells/tri2/TaylorHood', cells_config, mesh='tri2', spec='ElementComposite(ElementVector(ElementTriP2()), ElementTriP1())', cellsets=[[0], [1], [0, 1]])
    add('cells/tet2/P2xP0', cells_config, mesh='tet2', spec='ElementComposite(ElementTetP2(), ElementTetP0())', cellsets=[[0], [1], [0, 1]], free='none')
    add('cells/tet2/VectorP2xP1', cells_config, mesh='tet2', spec='ElementComposite(ElementVector(ElementTetP2()), ElementTetP1())', cellsets=[[1]], free='none')
    add('cells/hex2/Hex2xHex0', cells_config, mesh='hex2', spec='ElementComposite(ElementHex2(), ElementHex0())', cellsets=[[0], [0, 1]], free='none')
    add('cells/quad2/ElementQuad2', cells_config, mesh='quad2', spec='ElementQuad2', cellsets=[[0], [1]], free='none')
    # histories on one basis object
    for mesh, spec in [('tri2', 'ElementTriP2'), ('tri2heron', 'ElementTriArgyris'), ('tet2', 'ElementTetP2')]:
        add('history/%s/%s' % (mesh, spec), history_config, mesh=mesh, spec=spec)
    return cfgs


META = dict(
    explanation='For every enumerated facet subset F the real get_dofs(F) is called; with the returned coefficients set to zero and all others '
                'SYMBOLIC, z3 decides that the trace of the discrete function on every facet of F (value / normal / tangential part; C1 '
                'elements also the gradient) vanishes identically at a SYMBOLIC facet point for all geometries (soundness - a wrongly omitted DOF '
                'gives a counterexample); each returned DOF changes the trace somewhere (existential; a superfluous DOF is refuted); the set equals '
                'the harness\' own closure over the mesh tables; keep/drop/skip filters against an independent name map.  Predicate selectors '
                'run with symbolic geometry and threshold: on each path the solver proves that exactly the facets/cells/vertices returned '
                'satisfy the predicate; tag-name/list/set forms agree.  Cell queries: u_h on the selected cells vanishes when the returned DOFs do.',
    symbolic='coefficient vector, facet/cell point, vertex coordinates, selector threshold',
    bounds=dict(tri='two triangles: ALL 31 facet subsets (interior facet included)', quad='two quadrilaterals: 10 (thorough 40) random subsets of 7 facets + all',
                tet='two tetrahedra: 12 (60) random subsets of 7 facets; quick one free vertex', hex='two hexahedra numeric geometry, 4 (8) subsets of 11 facets',
                histories='filtered then unfiltered queries on one basis object'),
    outside=['meshes larger than the zoo', 'oriented boundaries', 'float rounding'],
    stubs=[],
    assumptions=['mesh validity'],
    design_ref='DESIGN.md 4/C07',
)

if __name__ == '__main__':
    sys.exit(harness.main('C07', 'checks.c07', build_configs, META))
