"""C14 - point location and point evaluation of discrete functions are exact (simplex + line; quad/hex numeric).

Symbolic: query points, coefficient vector, vertex coordinates (triangles: all or two free vertices; tetrahedra numeric).
Real code: element_finder of MeshTri1/MeshTet1/MeshLine1, CellBasis.probes/interpolator/point_source, MappingAffine.invF, gbasis.
Environment: the KD-tree answer is NONDETERMINISTIC - a harness-chosen candidate set, every set of the stated size is enumerated
(including sets that omit the containing cell, which exercises the exhaustive fallback).
Per path: a returned cell contains its point (own barycentric predicate); a raising path is incompatible with "the point lies in
some cell"; probes(x) @ y == local expansion of the located cell at x; repeated/permuted points; point_source; interpolator;
agreement with interpolate() at the quadrature points.
"""
import itertools
import sys
import warnings

import numpy as np

from engine import harness
from engine.harness import Skip
from engine.sym import Sym, tosym
from engine.symnp import det_obj
from engine.zoo import make_mesh, simplex_det
from checks.c09 import make_elem

SLACK = 1e-9


class TreeStub:
    """scipy.spatial.cKDTree stand-in: answers every query with the given candidate cells."""

    def __init__(self, cands):
        self.cands = list(cands)

    def query(self, pts, k=1, **kw):
        n = np.asarray(pts).shape[0]
        idx = np.array([self.cands[:k] + [self.cands[-1]] * max(0, k - len(self.cands))] * n, dtype=np.int64)
        return np.zeros(idx.shape), idx


class SymCOO:
    """coo_matrix stand-in inside cell_basis.probes for symbolic values."""

    def __init__(self, arg, shape=None):
        data, (rows, cols) = arg
        self.data, self.rows, self.cols, self.shape = np.asarray(data), np.asarray(rows), np.asarray(cols), tuple(int(s) for s in shape)

    def toarray(self):
        A = np.zeros(self.shape, dtype=object)
        for d, r, c in zip(self.data, self.rows, self.cols):
            A[r, c] = A[r, c] + d
        return A

    def __matmul__(self, y):
        A = self.toarray()
        return np.array([sum(A[i, j] * y[j] for j in range(self.shape[1])) for i in range(self.shape[0])], dtype=object)


def install_stubs(h, m, cands):
    import importlib
    if cands is not None:
        m._cached_tree = TreeStub(cands)
        h.stub('scipy.spatial.cKDTree.query -> harness-chosen candidate set (all sets of the stated size enumerated)')
    if h.sym_mode:
        cb = importlib.import_module('skfem.assembly.basis.cell_basis')
        cb.coo_matrix = SymCOO
        h.stub('scipy.sparse.coo_matrix inside CellBasis.probes -> triplet container with @ and toarray')


def bary(P, cell, x):
    """Numerators of the barycentric coordinates of x in the simplex and its determinant (lambda_a = num_a / det)."""
    d = P.shape[0]
    nums = []
    det = simplex_det(P, cell)
    for a in range(d + 1):
        Q = np.empty((d, d + 1), dtype=object)
        for j in range(d + 1):
            for i in range(d):
                Q[i, j] = x[i] if j == a else P[i, cell[j]]
        nums.append(simplex_det(Q, list(range(d + 1))))
    return nums, det


def inside_pred(h, P, cell, x, slack):
    nums, det = bary(P, cell, x)
    # lambda_a >= -slack  <=>  num_a * det >= -slack * det^2
    return h.And(*[n * det >= -slack * det * det for n in nums])


def finder_config(h, mesh, cands, npts=1, free=None, nominal_pts=None, numeric_geometry=False):
    with warnings.catch_warnings():
        warnings.simplefilter('ignore')
        m = make_mesh(h, mesh, free='none' if numeric_geometry else free)
        P, t = m.doflocs, np.asarray(m.t)
        dim = P.shape[0]
        nt = t.shape[1]
        install_stubs(h, m, cands if dim > 1 else None)
        nom = np.asarray(nominal_pts if nominal_pts is not None else [[0.4, 0.35, 0.2][:dim]] * npts, dtype=float).T
        x = h.sym('x', (dim, npts), nominal=nom)
        finder = m.element_finder()
        h.sample(dict(mesh=mesh, candidates=cands, points=npts))
        try:
            cells = np.asarray(finder(*[x[d] for d in range(dim)]))
            raised = False
        except (ValueError, IndexError):
            # any error counts as "raises instead of returning a cell" (the 1-D finder raises IndexError right of the mesh)
            raised = True
        if raised:
            # on this path NO cell may contain ALL... precisely: some point lies in no cell
            some_outside = h.Or(*[h.And(*[h.Not(inside_pred(h, P, t[:, K], [x[d, i] for d in range(dim)], 0.0)) for K in range(nt)]) for i in range(npts)])
            h.valid('raising path: some query point lies in no cell', some_outside, kinds=('nlsat', 'default'))
        else:
            h.concrete('one cell per point', cells.shape == (npts,))
            for i in range(min(npts, len(cells))):
                K = int(cells[i])
                h.concrete('point %d: cell index in range' % i, 0 <= K < nt)
                if 0 <= K < nt:
                    h.valid('point %d lies in the returned cell %d' % (i, K), inside_pred(h, P, t[:, K], [x[d, i] for d in range(dim)], SLACK),
                            kinds=('nlsat', 'default'))


def own_ref_point(P, cell, x):
    """Reference coordinates of x in the simplex: X_k = lambda of local vertex k+1."""
    nums, det = bary(P, cell, x)
    return [nums[a] / det for a in range(1, len(nums))]


def probes_config(h, mesh, spec, cands, pts, free=None, order=None):
    import skfem as S
    with warnings.catch_warnings():
        warnings.simplefilter('ignore')
        m = make_mesh(h, mesh, free=free)
        P, t = m.doflocs, np.asarray(m.t)
        dim = P.shape[0]
        e = make_elem(spec)
        basis = S.CellBasis(m, e)
        install_stubs(h, m, cands if dim > 1 else None)
        N = int(basis.N)
        y = h.sym('y', (N,), nominal=(np.arange(N) * 5 % 7) - 2.5)
        npts = len(pts)
        xs = h.sym('x', (dim, npts), nominal=np.asarray(pts, dtype=float).T)
        order = list(range(npts)) if order is None else order
        X = np.array([[xs[d, i] for i in order] for d in range(dim)], dtype=object if h.sym_mode else float)
        h.sample(dict(mesh=mesh, element=spec, candidates=cands, points=[list(p) for p in pts], order=order))
        try:
            Pm = basis.probes(X)
        except (ValueError, IndexError):
            some_outside = h.Or(*[h.And(*[h.Not(inside_pred(h, P, t[:, K], [xs[d, i] for d in range(dim)], 0.0)) for K in range(t.shape[1])])
                                  for i in range(npts)])
            h.valid('raising path: some query point lies in no cell', some_outside, kinds=('nlsat', 'default'))
            return
        vals = np.asarray(Pm @ y) if h.sym_mode else np.asarray(Pm @ np.asarray(y, dtype=float))
        comp = int(np.prod(basis._base_tensor_order)) if len(basis._base_tensor_order) else 1
        h.concrete('probing matrix shape', tuple(Pm.shape) == (comp * len(order), N))
        cells = np.asarray(m.element_finder(mapping=basis.mapping)(*[X[d] for d in range(dim)]))
        mapping = basis.mapping
        ed = np.asarray(basis.element_dofs)
        for r, i in enumerate(order):
            K = int(cells[r])
            xi = [xs[d, i] for d in range(dim)]
            h.valid('point %d lies in the located cell %d' % (i, K), inside_pred(h, P, t[:, K], xi, SLACK), kinds=('nlsat', 'default'))
            Xr = own_ref_point(P, t[:, K], xi)
            Xarr = np.array([[v] for v in Xr], dtype=object if h.sym_mode else float)
            tind = np.array([K], dtype=np.int32)
            tot = None
            for k in range(ed.shape[0]):
                v = np.asarray(e.gbasis(mapping, Xarr, k, tind=tind)[0].value)[..., 0, 0] * y[ed[k, K]]
                tot = v if tot is None else tot + v
            tot = np.atleast_1d(np.asarray(tot)).ravel()
            for c in range(comp):
                # rows are component-major: row = c * npts + r
                h.zero('point %d component %d: probes(x) @ y == local expansion of cell %d' % (i, c, K), vals[c * len(order) + r] - tot[c])
        # point_source == the row of the probing matrix
        if comp == 1:
            x0 = np.array([xs[d, order[0]] for d in range(dim)], dtype=object if h.sym_mode else float)
            ps = basis.point_source(x0)
            row = Pm.toarray()[0] if h.sym_mode else np.asarray(Pm.toarray())[0]
            h.equal('point_source(x) == first row of probes', np.asarray(ps), np.asarray(row))
        # interpolator handle
        f = basis.interpolator(y if h.sym_mode else np.asarray(y, dtype=float))
        out = np.asarray(f(X)).ravel()
        h.equal('interpolator(y)(x) == probes(x) @ y', out, np.asarray(vals).ravel())


def interpolator_history_config(h, mesh, spec):
    """One interpolator handle called twice with the SAME array object modified in place in between (numeric geometry and points,
    symbolic coefficients): the second answer must be the evaluation at the new points."""
    import skfem as S
    from engine import stubs_misc
    with warnings.catch_warnings():
        warnings.simplefilter('ignore')
        m = make_mesh(h, mesh, free='none')
        e = make_elem(spec)
        basis = S.CellBasis(m, e)
        install_stubs(h, m, list(range(m.t.shape[1])))
        N = int(basis.N)
        y = h.sym('y', (N,), nominal=(np.arange(N) * 5 % 7) - 2.5)
        dim = m.p.shape[0]
        pts = np.array([[0.3, 0.35], [0.6, 0.45]]).T[:dim] if dim == 2 else np.array([[0.3], [0.9]]).T
        X = h.const(pts) if h.sym_mode else np.array(pts, dtype=float)
        f = basis.interpolator(y if h.sym_mode else np.asarray(y, dtype=float))
        r1 = np.asarray(f(X)).ravel()
        X += (h.const(np.full(pts.shape, 0.0625)) if h.sym_mode else 0.0625)       # in place
        r2 = np.asarray(f(X)).ravel()
        fresh = np.asarray(S.CellBasis(m, make_elem(spec)).interpolator(y if h.sym_mode else np.asarray(y, dtype=float))(np.array(X, copy=True))).ravel() \
            if False else np.asarray(basis.probes(np.array(X, copy=True)) @ (y if h.sym_mode else np.asarray(y, dtype=float))).ravel()
        h.equal('second call of the handle == evaluation at the modified points', r2, fresh)
        if h.sym_mode:
            h.canary('canary: first and second answer differ', r2 - r1)


def quadrature_points_config(h, mesh, spec):
    """interpolator(y) at the global quadrature points == interpolate(y) (numeric geometry: the points are interior constants)."""
    import skfem as S
    with warnings.catch_warnings():
        warnings.simplefilter('ignore')
        m = make_mesh(h, mesh, free='none')
        e = make_elem(spec)
        basis = S.CellBasis(m, e, intorder=2)
        install_stubs(h, m, list(range(m.t.shape[1]))[:5])
        N = int(basis.N)
        y = h.sym('y', (N,), nominal=(np.arange(N) * 5 % 7) - 2.5)
        xq = basis.global_coordinates().value        # (dim, ncells, nqp)
        f = basis.interpolator(y if h.sym_mode else np.asarray(y, dtype=float))
        got = np.asarray(f(xq))
        want = np.asarray(basis.interpolate(y if h.sym_mode else np.asarray(y, dtype=float)).value)
        h.concrete('shape follows the trailing axes of the points', got.shape == want.shape[-2:] or got.shape == want.shape, '%s vs %s' % (got.shape, want.shape))
        h.equal('interpolator(y)(x_q) == interpolate(y)', got.reshape(want.shape), want)


def numeric_quad_config(h, mesh, spec):
    """Quadrilaterals/hexahedra: the finder and the Newton inverse run as shipped in float64 on numeric geometry and points that
    are images of known reference points; for ALL coefficient vectors y in [-1,1]^N: |probes(x) @ y - sum_i y_i phi_i(X_known)| <= 1e-8."""
    import skfem as S
    from engine import stubs_misc
    from engine.zoo import topo
    from fractions import Fraction
    with warnings.catch_warnings():
        warnings.simplefilter('ignore')
        cname, p, t = topo(mesh)
        if mesh == 'wedge1':
            p = np.array(S.MeshWedge1().p, dtype=float)      # planar faces: the prism finder goes through a tetrahedral split
        Xref = np.array([[0.21875, 0.6875, 0.40625], [0.28125, 0.8125, 0.15625], [0.34375, 0.25, 0.59375]])[:p.shape[0]]
        if mesh == 'wedge1':
            Xref = np.array([[0.21875, 0.40625, 0.125], [0.28125, 0.15625, 0.625], [0.34375, 0.25, 0.59375]])
        ctx = stubs_misc.plain_numpy() if h.sym_mode else None
        if ctx:
            ctx.__enter__()
        try:
            m = getattr(S, cname)(p, t)
            e = make_elem(spec)
            basis = S.CellBasis(m, e)
            mp = m._mapping()
            nt = t.shape[1]
            xs, want = [], []
            for K in range(nt):
                xK = mp.F(Xref, tind=np.array([K]))[:, 0, :]
                for q in range(Xref.shape[1]):
                    xs.append(xK[:, q])
                    row = np.zeros(basis.N)
                    for k in range(basis.Nbfun):
                        row[basis.element_dofs[k, K]] += e.lbasis(Xref[:, q:q + 1], k)[0][0]
                    want.append(row)
            X = np.array(xs).T
            Pm = basis.probes(X).toarray()
            want = np.array(want)
        finally:
            if ctx:
                ctx.__exit__(None, None, None)
        N = Pm.shape[1]
        h.sample(dict(mesh=mesh, element=spec, points=X.shape[1], mode='float path, symbolic coefficients'))
        if h.sym_mode:
            y = h.sym('y', (N,), nominal=np.ones(N) * 0.5)
            for j in range(N):
                h.assume(h.And(y[j] >= -1, y[j] <= 1))
            tol = h.frac(1, 10 ** 8)
            for r in range(Pm.shape[0]):
                d = sum(h.frac(Fraction(float(Pm[r, j])) - Fraction(float(want[r, j]))) * y[j] for j in range(N))
                h.valid('point %d: |probes(x) @ y - local expansion| <= 1e-8' % r, h.And(d <= tol, d >= -tol), kinds=('default',))
        else:
            for r in range(Pm.shape[0]):
                if np.abs(Pm[r] - want[r]).sum() > 1e-8:
                    h.failed_keys.append(('point %d: |probes(x) @ y - local expansion| <= 1e-8' % r, float(np.abs(Pm[r] - want[r]).sum())))


def build_configs(tier, seed):
    quick = tier == 'quick'
    cfgs = []

    def add(name, fn, **kw):
        opts = dict(timeout=kw.pop('timeout', 500 if quick else 2400), maxpaths=kw.pop('maxpaths', 96 if quick else 1024),
                    feas_ms=(1500, 4000) if quick else (3000, 20000))
        cfgs.append(dict(name=name, fn=fn, kw=kw, opts=opts))
    # finder on triangles: every candidate set of size <= 2 of a 2/3-cell mesh (including sets that omit the containing cell)
    for mesh, nt in (('tri2', 2), ('tri3fan', 3)):
        sets = [list(c) for r in (1, 2) for c in itertools.permutations(range(nt), r)]
        for cs in (sets if not quick else list(dict.fromkeys(map(tuple, sets[::2] + [sets[-1]])))):
            cs = list(cs)
            if quick and mesh == 'tri3fan' and cs not in ([0], [1, 2], [2, 1]):
                continue
            add('finder/%s/cands=%s' % (mesh, ''.join(map(str, cs))), finder_config, mesh=mesh, cands=cs, npts=1,
                free=([0, 3] if mesh == 'tri2' else ([4] if quick else [1, 4])))
    # batches of two points: one may be outside while the other is inside
    add('finder/tri2/two-points', finder_config, mesh='tri2', cands=[0, 1], npts=2, free=[3], nominal_pts=[[0.4, 0.35], [1.6, 1.4]])
    add('finder/tri2/two-points/cands=1', finder_config, mesh='tri2', cands=[1], npts=2, free=[3], nominal_pts=[[0.4, 0.35], [-0.6, 0.2]])
    add('finder/tri3fan/two-points/Gnum', finder_config, mesh='tri3fan', cands=[2, 0], npts=2, numeric_geometry=True,
        nominal_pts=[[0.4, 0.35], [1.6, 1.4]])
    # lines (np.digitize forks)
    add('finder/line3perm', finder_config, mesh='line3perm', cands=None, npts=1, nominal_pts=[[0.7]])
    add('finder/line3perm/two-points', finder_config, mesh='line3perm', cands=None, npts=2, nominal_pts=[[0.7], [2.2]])
    # tetrahedra: numeric geometry, symbolic point
    add('finder/tet2/Gnum/cands=01', finder_config, mesh='tet2', cands=[0, 1], npts=1, numeric_geometry=True, nominal_pts=[[0.3, 0.3, 0.25]], timeout=900)
    add('finder/tet2/Gnum/cands=1', finder_config, mesh='tet2', cands=[1], npts=1, numeric_geometry=True, nominal_pts=[[0.3, 0.3, 0.25]], timeout=900)
    # batches mixing points inside and outside the mesh must raise (the out-of-mesh test is per point)
    add('finder/tet2/Gnum/two-points/in+out', finder_config, mesh='tet2', cands=[0, 1], npts=2, numeric_geometry=True,
        nominal_pts=[[0.3, 0.3, 0.25], [-0.5, 0.2, 0.1]], timeout=900)
    add('finder/tet2/Gnum/two-points/out+in', finder_config, mesh='tet2', cands=[1, 0], npts=2, numeric_geometry=True,
        nominal_pts=[[3.0, 0.2, 0.1], [0.3, 0.3, 0.25]], timeout=900)
    # probes / interpolator / point_source
    for spec in ['ElementTriP1', 'ElementTriP2', 'ElementTriMini', 'ElementVector(ElementTriP1())', 'ElementTriRT1'] + \
            ([] if quick else ['ElementTriP3', 'ElementTriN1', 'ElementTriHHJ1']):
        add('probes/tri2/%s' % spec.replace(' ', ''), probes_config, mesh='tri2', spec=spec, cands=[0, 1], pts=[(0.4, 0.35)], free=[3])
    add('probes/tri2/ElementTriP2/repeated-permuted', probes_config, mesh='tri2', spec='ElementTriP2', cands=[1, 0],
        pts=[(0.4, 0.35), (0.8, 0.7)], order=[1, 0, 1], free=[3])
    add('probes/line3perm/ElementLineP2', probes_config, mesh='line3perm', spec='ElementLineP2', cands=None, pts=[(0.7,), (1.3,)], order=[0, 1, 0])
    add('probes/tet2/ElementTetP1/Gnum', probes_config, mesh='tet2', spec='ElementTetP1', cands=[0, 1], pts=[(0.3, 0.3, 0.25)], free='none', timeout=900)
    add('interpolator-history/tri2/ElementTriP2', interpolator_history_config, mesh='tri2', spec='ElementTriP2')
    add('interpolator-history/line3/ElementLineP1', interpolator_history_config, mesh='line3', spec='ElementLineP1')
    add('quadrature-points/tri2/ElementTriP2', quadrature_points_config, mesh='tri2', spec='ElementTriP2')
    add('quadrature-points/line3perm/ElementLineP2', quadrature_points_config, mesh='line3perm', spec='ElementLineP2')
    # quadrilaterals / hexahedra / prisms: float path with symbolic coefficients
    for mesh, spec in [('quad2', 'ElementQuad1'), ('quad2mix', 'ElementQuad1'), ('quad2mix', 'ElementQuad2'), ('hex2', 'ElementHex1'), ('wedge1', 'ElementWedge1')]:
        add('numeric/%s/%s' % (mesh, spec), numeric_quad_config, mesh=mesh, spec=spec)
    return cfgs


META = dict(
    explanation='The real element finders run with a SYMBOLIC query point (and symbolic / partly symbolic geometry) against a KD-tree stub that '
                'answers with an arbitrary candidate set (all sets of size <= 2 enumerated); the inside tests fork and every path is explored. '
                'Per path z3 (nlsat) proves: a returned cell contains its point (own barycentric predicate, slack 1e-9); a raising path implies '
                'that some query point lies in no cell.  probes(x) @ y equals the local expansion of the located cell at the own inverse image of '
                'x for symbolic x, y; repeated/permuted points, point_source, interpolator, history of an interpolator handle, agreement with '
                'interpolate() at the quadrature points.  Quadrilaterals/hexahedra/prisms: float path as shipped on numeric data with symbolic '
                'coefficients (LRA with tolerance 1e-8).',
    symbolic='query points, coefficient vector, vertex coordinates (two free vertices), KD-tree answer (enumerated)',
    bounds=dict(meshes='2-3 triangles, 3 segments, 2 tetrahedra (numeric geometry)', candidate_sets='all ordered sets of size <= 2', points='1-2 per call'),
    outside=['the real KD-tree', 'evaluation inside non-affine cells for symbolic points (Newton)', 'float rounding at cell boundaries (eps slack)'],
    stubs=[],
    assumptions=['mesh validity'],
    design_ref='DESIGN.md 4/C14',
)

if __name__ == '__main__':
    sys.exit(harness.main('C14', 'checks.c14', build_configs, META))
