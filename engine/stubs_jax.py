"""Forward-mode stand-ins for jax.linearize / jax.jvp / jax.numpy inside skfem.autodiff (symbolic mode only).

Contract honoured (jax documentation): ``linearize(fun, *primals) -> (fun(*primals), f_jvp)`` with ``f_jvp(*tangents)`` the
Jacobian-vector product of ``fun`` at the primals; ``jvp(fun, primals, tangents) -> (fun(*primals), J @ tangents)``.
Implementation: every entry of the primal pytree (JaxDiscreteField leaves) is replaced by a fresh real variable, ``fun`` - i.e. the
user's integrand together with skfem's JAX helpers - is executed on those, the outputs are differentiated with engine.astdiff with
respect to the fresh variables they mention, and the original terms are substituted back.  JAX's own tracing/differentiation is
NOT exercised (outside the claim); what is exercised is everything NonlinearForm does around it.
"""
import numpy as np
import z3

from .sym import Sym, tosym
from . import astdiff, zeval

_counter = [0]


class JNP:
    def __getattr__(self, k):
        return getattr(np, k)

    def asarray(self, a, *args, **kw):
        return np.asarray(a)


def _leaves(tree):
    """(list of arrays, rebuild function) for tuples of JaxDiscreteField / arrays."""
    from skfem.autodiff import JaxDiscreteField
    if isinstance(tree, JaxDiscreteField):
        fields = list(tree.astuple)
        idx = [i for i, f in enumerate(fields) if f is not None]
        arrs = [np.asarray(fields[i]) for i in idx]

        def rebuild(new):
            f2 = list(fields)
            for i, a in zip(idx, new):
                f2[i] = a
            return JaxDiscreteField(*f2)
        return arrs, rebuild
    if isinstance(tree, (tuple, list)):
        parts = [_leaves(t) for t in tree]
        arrs = [a for p in parts for a in p[0]]

        def rebuild(new):
            out, k = [], 0
            for p in parts:
                n = len(p[0])
                out.append(p[1](new[k:k + n]))
                k += n
            return tuple(out)
        return arrs, rebuild
    a = np.asarray(tree)
    return [a], (lambda new: new[0])


def _fresh_like(arrs):
    fresh, back = [], []
    for a in arrs:
        f = np.empty(a.shape, dtype=object)
        for idx in np.ndindex(*a.shape):
            _counter[0] += 1
            v = z3.Real('ad!%d' % _counter[0])
            f[idx] = Sym(v)
            back.append((v, tosym(a[idx]).a))
        fresh.append(f)
    return fresh, back


def _subst(term, back):
    return z3.substitute(term, *back) if back else term


def _jvp_arrays(y_fresh, fresh, tangents, back):
    """J @ t for array outputs y_fresh(fresh vars); tangents: list of arrays matching `fresh`."""
    y_fresh = np.asarray(y_fresh)
    out = np.empty(y_fresh.shape, dtype=object)
    # variable -> tangent entry
    tmap = {}
    for f, t in zip(fresh, tangents):
        t = np.broadcast_to(np.asarray(t), f.shape)
        for idx in np.ndindex(*f.shape):
            tmap[f[idx].a.decl().name()] = tosym(t[idx])
    for idx in np.ndindex(*y_fresh.shape):
        yo = tosym(y_fresh[idx])
        tot = Sym(c=yo.c * 0) if yo.c is not None else None
        if yo.c is not None:
            out[idx] = Sym(c=yo.c * 0)
            continue
        acc = 0
        fv = zeval.free_vars(yo.a)
        for name, var in fv.items():
            if name in tmap:
                d = astdiff.diff(yo.a, var, {})
                acc = acc + Sym(_subst(d, back)) * tmap[name]
        out[idx] = tosym(acc)
    return out


def linearize(fun, *primals):
    arrs, rebuild = _leaves(primals)
    fresh, back = _fresh_like(arrs)
    y_fresh = fun(*rebuild(fresh))
    yf = np.asarray(y_fresh)
    y = np.empty(yf.shape, dtype=object)
    for idx in np.ndindex(*yf.shape):
        v = tosym(yf[idx])
        y[idx] = v if v.c is not None else Sym(_subst(v.a, back))

    def f_jvp(*tangents):
        tarrs, _ = _leaves(tangents)
        return _jvp_arrays(y_fresh, fresh, tarrs, back)
    return y, f_jvp


def jvp(fun, primals, tangents):
    y, f = linearize(fun, *primals)
    return y, f(*tangents)


def install(h):
    import importlib
    ad = importlib.import_module('skfem.autodiff')
    adh = importlib.import_module('skfem.autodiff.helpers')
    ad.linearize, ad.jvp, ad.jnp = linearize, jvp, JNP()
    adh.jnp = JNP()
    h.stub('jax.linearize / jax.jvp inside skfem.autodiff -> forward-mode stand-in honouring their documented contract (fresh variables '
           'for the primal leaves, engine.astdiff, substitution back); jax.numpy -> NumPy namesakes')
