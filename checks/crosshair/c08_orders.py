"""CrossHair harness for the clause of C08 "orders outside the tables raise an error instead of silently returning a weaker rule".

The ORDER is a symbolic int: CrossHair explores the dispatch (`if norder <= 1`, the `norder >= 5` shift, the dict lookup) per path
with z3; on each path the returned table is concrete and its true degree of precision is computed exactly (Fractions, 1e-12).
post: the function either raises NotImplementedError (reported as -1) or returns a rule whose true degree is >= the requested order.
"""
from fractions import Fraction as Fr

import numpy as np

from checks.c08 import monomials, exact_integral


def true_degree(kind: str, X, W, upto: int) -> int:
    Xf = [[Fr(float(X[i, q])) for i in range(X.shape[0])] for q in range(W.shape[0])]
    Wf = [Fr(float(w)) for w in W]
    deg = -1
    for k in range(upto + 1):
        for g in monomials(kind, k):
            e = -exact_integral(kind, g)
            for q in range(len(Wf)):
                t = Wf[q]
                for i, a in enumerate(g):
                    t *= Xf[q][i] ** a
                e += t
            if abs(e) > Fr(1, 10 ** 12):
                return deg
        deg = k
    return deg


_CACHE = {}


def _degree_untraced(kind, X, W, upto):
    """The table returned on this path is concrete: its true degree is computed outside CrossHair's tracing (and memoised)."""
    from crosshair.tracers import NoTracing
    with NoTracing():
        X, W = np.asarray(X), np.asarray(W)
        key = (kind, X.shape, float(W[0]), float(X.ravel()[0]) if X.size else 0.0)
        if key not in _CACHE:
            _CACHE[key] = true_degree(kind, X, W, upto)
        return _CACHE[key]


def tri_dispatch(norder: int) -> int:
    """
    pre: -4 <= norder <= 40
    post: __return__ == -1 or __return__ >= norder
    """
    from skfem.quadrature import get_quadrature_tri
    try:
        X, W = get_quadrature_tri(norder)
    except NotImplementedError:
        return -1
    return _degree_untraced('tri', X, W, 21)


def tet_dispatch(norder: int) -> int:
    """
    pre: -4 <= norder <= 24
    post: __return__ == -1 or __return__ >= norder
    """
    from skfem.quadrature import get_quadrature_tet
    try:
        X, W = get_quadrature_tet(norder)
    except NotImplementedError:
        return -1
    return _degree_untraced('tet', X, W, 10)
