"""NumPy namespace proxy (DESIGN 2.2).  ``module.np`` of the imported skfem modules is replaced by an
instance, so the library's float allocations become object arrays and a handful of functions that have
no object-dtype loop get element-wise symbolic versions.  Nothing in /repo is modified."""
import sys
import itertools
import numpy as np
from .sym import Sym, SymBool, tosym, const_arr


def _isobj(x):
    return isinstance(x, np.ndarray) and x.dtype == object


def _anyobj(*xs):
    for x in xs:
        if isinstance(x, Sym) or _isobj(x):
            return True
        if isinstance(x, (list, tuple)) and any(isinstance(y, Sym) or _isobj(y) for y in x):
            return True
    return False


def _elementwise(f, x):
    x = np.asarray(x)
    out = np.empty(x.shape, dtype=object)
    for idx in np.ndindex(*x.shape):
        out[idx] = f(x[idx])
    return out if out.shape else out[()]


def det_obj(A):
    """Leibniz determinant of a small square object matrix."""
    n = A.shape[0]
    if n == 1:
        return A[0, 0]
    if n == 2:
        return A[0, 0] * A[1, 1] - A[0, 1] * A[1, 0]
    tot = 0
    for j in range(n):
        minor = np.delete(np.delete(A, 0, axis=0), j, axis=1)
        tot = tot + (-1) ** j * A[0, j] * det_obj(minor)
    return tot


def _gauss_jordan_const(A):
    from fractions import Fraction
    n = A.shape[0]
    M = [[tosym(A[i, j]).c for j in range(n)] + [Fraction(int(i == j)) for j in range(n)] for i in range(n)]
    for c in range(n):
        piv = next((r for r in range(c, n) if M[r][c] != 0), None)
        if piv is None:
            raise np.linalg.LinAlgError('Singular matrix')
        M[c], M[piv] = M[piv], M[c]
        pv = M[c][c]
        M[c] = [v / pv for v in M[c]]
        for r in range(n):
            if r != c and M[r][c] != 0:
                f = M[r][c]
                M[r] = [a - f * b for a, b in zip(M[r], M[c])]
    out = np.empty((n, n), dtype=object)
    for i in range(n):
        for j in range(n):
            out[i, j] = Sym(c=M[i][n + j])
    return out


def inv_obj(A):
    """Exact inverse (environment service for np.linalg.inv on object arrays): Gauss-Jordan in Fractions for constant
    matrices, cofactor formula for small symbolic ones."""
    n = A.shape[0]
    if all(tosym(v).c is not None for v in A.ravel()):
        return _gauss_jordan_const(A)
    if n > 4:
        raise NotImplementedError('symbolic inverse of a %dx%d matrix' % (n, n))
    d = det_obj(A)
    out = np.empty((n, n), dtype=object)
    for i in range(n):
        for j in range(n):
            minor = np.delete(np.delete(A, j, axis=0), i, axis=1)
            out[i, j] = (-1) ** (i + j) * (det_obj(minor) if n > 1 else 1) / d
    return out


class _Linalg:
    def __getattr__(self, k):
        return getattr(np.linalg, k)

    def norm(self, x, ord=None, axis=None, **kw):
        if not _anyobj(x):
            return np.linalg.norm(x, ord=ord, axis=axis, **kw)
        x = np.asarray(x)
        if ord in (1, np.inf) and isinstance(axis, tuple) and len(axis) == 2:
            # matrix norms: 1 = max column sum (sum over axis[0]); inf = max row sum
            a = _elementwise(lambda v: abs(tosym(v)), x)
            sm = np.sum(a, axis=axis[0] if ord == 1 else axis[1], keepdims=True)
            mx = _reduce_cmp(np.asarray(sm), axis[1] if ord == 1 else axis[0], lambda p, q: bool(tosym(p) >= tosym(q)))
            return np.squeeze(mx, axis=axis[0] if ord == 1 else axis[1]) if isinstance(mx, np.ndarray) and mx.ndim > 1 else mx
        if ord == 1:
            a = _elementwise(lambda v: abs(tosym(v)), x)
            return np.sum(a, axis=axis)
        if ord == np.inf:
            a = _elementwise(lambda v: abs(tosym(v)), x)
            r = _reduce_cmp(np.asarray(a), axis, lambda p, q: bool(tosym(p) >= tosym(q)))
            return r if isinstance(r, np.ndarray) else tosym(r)
        if ord not in (None, 2):
            raise NotImplementedError('symbolic norm ord=%r' % (ord,))
        s = np.sum(x * x, axis=axis)
        return _elementwise(lambda v: tosym(v).sqrt(), s)

    def inv(self, A):
        if not _anyobj(A):
            return np.linalg.inv(A)
        A = np.asarray(A)
        if A.ndim == 2:
            return inv_obj(A)
        out = np.empty(A.shape, dtype=object)
        for idx in np.ndindex(*A.shape[:-2]):
            out[idx] = inv_obj(A[idx])
        return out

    def det(self, A):
        if not _anyobj(A):
            return np.linalg.det(A)
        A = np.asarray(A)
        if A.ndim == 2:
            return det_obj(A)
        out = np.empty(A.shape[:-2], dtype=object)
        for idx in np.ndindex(*A.shape[:-2]):
            out[idx] = det_obj(A[idx])
        return out


class NPProxy:
    """Forwards everything to NumPy except the functions below."""
    float_to_object = True

    def __init__(self):
        self.linalg = _Linalg()

    def __getattr__(self, k):
        return getattr(np, k)

    def _dt(self, dtype):
        if self.float_to_object and dtype in (None, float, np.float64, np.float32):
            return object
        return dtype

    def empty(self, shape, dtype=None, **kw):
        return np.empty(shape, dtype=self._dt(dtype), **kw)

    def zeros(self, shape, dtype=None, **kw):
        return np.zeros(shape, dtype=self._dt(dtype), **kw)

    def ones(self, shape, dtype=None, **kw):
        return np.ones(shape, dtype=self._dt(dtype), **kw)

    def full(self, shape, fill_value, dtype=None, **kw):
        if dtype is None and isinstance(fill_value, (float, Sym)):
            dtype = object
        return np.full(shape, fill_value, dtype=dtype, **kw)

    def zeros_like(self, a, dtype=None, **kw):
        a = np.asarray(a)
        if dtype is None and a.dtype.kind == 'f':
            dtype = self._dt(None)
        return np.zeros_like(a, dtype=dtype, **kw)

    def ones_like(self, a, dtype=None, **kw):
        a = np.asarray(a)
        if dtype is None and a.dtype.kind == 'f':
            dtype = self._dt(None)
        return np.ones_like(a, dtype=dtype, **kw)

    def empty_like(self, a, dtype=None, **kw):
        a = np.asarray(a)
        if dtype is None and a.dtype.kind == 'f':
            dtype = self._dt(None)
        return np.empty_like(a, dtype=dtype, **kw)

    def asarray(self, a, dtype=None, **kw):
        if _anyobj(a) and dtype in (np.float64, float, np.float32):
            dtype = object
        return np.asarray(a, dtype=dtype, **kw)

    def array(self, a, dtype=None, **kw):
        if dtype in (np.float64, float, np.float32) and (_anyobj(a) or _deep_obj(a)):
            dtype = object
        return np.array(a, dtype=dtype, **kw)

    def ascontiguousarray(self, a, dtype=None, **kw):
        if _anyobj(a) and dtype in (np.float64, float, np.float32):
            dtype = object
        return np.ascontiguousarray(a, dtype=dtype, **kw)

    def sqrt(self, x, *a, **kw):
        if not _anyobj(x):
            return np.sqrt(x, *a, **kw)
        return _elementwise(lambda v: tosym(v).sqrt(), x)

    def abs(self, x, *a, **kw):
        if not _anyobj(x):
            return np.abs(x, *a, **kw)
        return _elementwise(lambda v: abs(tosym(v)), x)

    absolute = abs

    def sign(self, x):
        if not _anyobj(x):
            return np.sign(x)
        return _elementwise(lambda v: (1 if bool(tosym(v) > 0) else (-1 if bool(tosym(v) < 0) else 0)), x)

    def clip(self, x, lo, hi, **kw):
        if not _anyobj(x):
            return np.clip(x, lo, hi, **kw)

        def f(v):
            v = tosym(v)
            if bool(v < lo):
                return tosym(lo)
            if bool(v > hi):
                return tosym(hi)
            return v
        return _elementwise(f, x)

    def maximum(self, a, b, *r, **kw):
        if not _anyobj(a, b):
            return np.maximum(a, b, *r, **kw)
        a, b = np.broadcast_arrays(np.asarray(a, dtype=object), np.asarray(b, dtype=object))
        out = np.empty(a.shape, dtype=object)
        for idx in np.ndindex(*a.shape):
            out[idx] = a[idx] if bool(tosym(a[idx]) >= tosym(b[idx])) else b[idx]
        return out if out.shape else out[()]

    def minimum(self, a, b, *r, **kw):
        if not _anyobj(a, b):
            return np.minimum(a, b, *r, **kw)
        a, b = np.broadcast_arrays(np.asarray(a, dtype=object), np.asarray(b, dtype=object))
        out = np.empty(a.shape, dtype=object)
        for idx in np.ndindex(*a.shape):
            out[idx] = a[idx] if bool(tosym(a[idx]) <= tosym(b[idx])) else b[idx]
        return out if out.shape else out[()]

    def max(self, x, axis=None, **kw):
        if not _anyobj(x):
            return np.max(x, axis=axis, **kw)
        r = _reduce_cmp(np.asarray(x), axis, lambda a, b: bool(tosym(a) >= tosym(b)))
        return r if isinstance(r, np.ndarray) else tosym(r)

    amax = max

    def min(self, x, axis=None, **kw):
        if not _anyobj(x):
            return np.min(x, axis=axis, **kw)
        r = _reduce_cmp(np.asarray(x), axis, lambda a, b: bool(tosym(a) <= tosym(b)))
        return r if isinstance(r, np.ndarray) else tosym(r)

    amin = min

    def argmax(self, x, axis=None, **kw):
        if not _anyobj(x):
            return np.argmax(x, axis=axis, **kw)
        return _argreduce(np.asarray(x), axis, lambda a, b: bool(tosym(a) > tosym(b)))

    def argmin(self, x, axis=None, **kw):
        if not _anyobj(x):
            return np.argmin(x, axis=axis, **kw)
        return _argreduce(np.asarray(x), axis, lambda a, b: bool(tosym(a) < tosym(b)))

    def argsort(self, x, axis=-1, **kw):
        if not _anyobj(x):
            return np.argsort(x, axis=axis, **kw)
        x = np.asarray(x)
        if x.ndim != 1:
            xm = np.moveaxis(x, axis, -1)
            out = np.empty(xm.shape, dtype=np.int64)
            for idx in np.ndindex(*xm.shape[:-1]):
                out[idx] = self.argsort(xm[idx])
            return np.moveaxis(out, -1, axis)
        idx = list(range(x.shape[0]))
        # stable insertion sort driven by symbolic comparisons (forks on each)
        for i in range(1, len(idx)):
            j = i
            while j > 0 and bool(tosym(x[idx[j]]) < tosym(x[idx[j - 1]])):
                idx[j], idx[j - 1] = idx[j - 1], idx[j]
                j -= 1
        return np.array(idx, dtype=np.int64)

    def sort(self, x, axis=-1, **kw):
        if not _anyobj(x):
            return np.sort(x, axis=axis, **kw)
        x = np.asarray(x)
        ix = self.argsort(x, axis=axis)
        return np.take_along_axis(x, ix, axis=axis)

    def digitize(self, x, bins, right=False):
        if not _anyobj(x, bins):
            return np.digitize(x, bins, right=right)
        x = np.asarray(x)
        bins = np.asarray(bins)
        out = np.empty(x.shape, dtype=np.int64)
        for idx in np.ndindex(*x.shape):
            v = tosym(x[idx])
            k = 0
            # increasing bins: number of bins[i] <= v (right=False)
            for b in bins:
                c = (tosym(b) < v) if right else (tosym(b) <= v)
                if bool(c):
                    k += 1
                else:
                    break
            out[idx] = k
        return out

    def finfo(self, dt):
        return np.finfo(np.float64 if dt in (object, np.dtype(object)) else dt)

    def isclose(self, a, b, rtol=1e-5, atol=1e-8, **kw):
        if not _anyobj(a, b):
            return np.isclose(a, b, rtol=rtol, atol=atol, **kw)
        a, b = np.broadcast_arrays(np.asarray(a, dtype=object), np.asarray(b, dtype=object))
        out = np.empty(a.shape, dtype=bool)
        for idx in np.ndindex(*a.shape):
            d = tosym(a[idx]) - tosym(b[idx])
            out[idx] = bool(abs(d) <= atol + rtol * abs(tosym(b[idx])))
        return out

    def isnan(self, x, **kw):
        if not _anyobj(x):
            return np.isnan(x, **kw)
        return np.zeros(np.asarray(x).shape, dtype=bool)

    def isfinite(self, x, **kw):
        if not _anyobj(x):
            return np.isfinite(x, **kw)
        return np.ones(np.asarray(x).shape, dtype=bool)

    def cross(self, a, b, axis=-1, **kw):
        if not _anyobj(a, b):
            return np.cross(a, b, axis=axis, **kw)
        a = np.moveaxis(np.asarray(a), axis, 0)
        b = np.moveaxis(np.asarray(b), axis, 0)
        out = np.array([a[1] * b[2] - a[2] * b[1], a[2] * b[0] - a[0] * b[2], a[0] * b[1] - a[1] * b[0]], dtype=object)
        return np.moveaxis(out, 0, axis)

    def nonzero(self, x):
        return np.nonzero(x)

    def power(self, x, k):
        if not _anyobj(x):
            return np.power(x, k)
        return _elementwise(lambda v: tosym(v) ** k, x)


def _deep_obj(a):
    if isinstance(a, (list, tuple)):
        return any(_deep_obj(x) for x in a)
    return isinstance(a, Sym) or _isobj(a)


def _reduce_cmp(x, axis, better):
    if axis is None:
        flat = x.ravel()
        best = flat[0]
        for v in flat[1:]:
            if not better(best, v):
                best = v
        return best
    xm = np.moveaxis(x, axis, -1)
    out = np.empty(xm.shape[:-1], dtype=object)
    for idx in np.ndindex(*xm.shape[:-1]):
        out[idx] = _reduce_cmp(xm[idx], None, better)
    return out


def _argreduce(x, axis, strictly_better):
    if axis is None:
        flat = x.ravel()
        bi = 0
        for i in range(1, flat.shape[0]):
            if strictly_better(flat[i], flat[bi]):
                bi = i
        return bi
    xm = np.moveaxis(x, axis, -1)
    out = np.empty(xm.shape[:-1], dtype=np.int64)
    for idx in np.ndindex(*xm.shape[:-1]):
        out[idx] = _argreduce(xm[idx], None, strictly_better)
    return out


PROXY = NPProxy()
_installed = {}


def install(pred=lambda k: True, proxy=None):
    """Replace ``np`` in every imported skfem module accepted by ``pred``."""
    p = proxy or PROXY
    for k in list(sys.modules):
        m = sys.modules[k]
        if k.startswith('skfem') and m is not None and pred(k):
            if isinstance(getattr(m, 'np', None), type(np)):
                _installed[k] = m.np
                m.np = p
            if isinstance(getattr(m, 'numpy', None), type(np)) and False:
                pass
    return p


def uninstall():
    for k, v in _installed.items():
        if k in sys.modules:
            sys.modules[k].np = v
    _installed.clear()
