#!/bin/bash
# usage: run_check.sh <ID> [quick|thorough] [--replay <file>] [--only <glob>]
# Runs the check for property <ID> against the CURRENT working tree of /repo (PYTHONPATH puts /repo first).
HERE="$(cd "$(dirname "$0")" && pwd)"
"$HERE/setup.sh" >/dev/null 2>&1 || { echo "HARNESS-ERROR: setup failed"; exit 2; }
ID="$1"; shift
mod="checks.$(echo "$ID" | tr 'A-Z' 'a-z')"
export PYTHONPATH="${VERIF_REPO:-/repo}:$HERE"
export PYTHONDONTWRITEBYTECODE=1
export SKFEM_VERIF=1
export OMP_NUM_THREADS=1 OPENBLAS_NUM_THREADS=1 MKL_NUM_THREADS=1
cd "$HERE"
exec "$HERE/.venv/bin/python" -m "$mod" "$@"
