"""C12 - uniform refinement preserves domain, conformity and named regions.

Symbolic: ALL vertex coordinates of the coarse mesh (the tetrahedral refiner's shortest-diagonal choice forks).
Real code: Mesh.refined, _uniform of MeshLine1/Tri1/Quad1/Tet1/Hex1 (+ second-order classes with straight facets, thorough).
For all geometries (per path): old vertices keep index and position; every new vertex is a CONSTANT convex combination of the
vertices of one old cell (weights extracted from the symbolic coordinates, the identity new_p == sum w_a p_a is decided by the solver);
every child lies in one parent; det(child)^2 * 4^d == det(parent)^2 (simplices) / signed measures of the children add up to the
parent's and keep its sign (quadrilaterals); 2^(d k) children per cell; every boundary facet of the fine mesh lies in a boundary facet
of the coarse one (no hanging nodes); distinct vertices; named subdomains = children of the tagged parents; named boundaries = the
sub-facets of the tagged facets (or dropped where unsupported).
"""
import itertools
import sys
import warnings
from fractions import Fraction as Fr

import numpy as np
import z3

from engine import harness, zeval
from engine.harness import Skip
from engine.sym import Sym, tosym
from engine.symnp import det_obj
from engine.zoo import make_mesh, topo, simplex_det, cross2
from checks.c03 import renumbered, shifted


def _float_weights(A, cells, refp, x, tol=1e-9):
    dim, nv0 = A.shape
    for K in range(cells.shape[1]):
        vs = cells[:, K]
        Pc = A[:, vs]
        if refp is None or len(vs) == dim + 1:
            try:
                wl = np.linalg.solve(np.vstack([Pc, np.ones((1, len(vs)))]), np.concatenate([x, [1.0]]))
            except np.linalg.LinAlgError:
                continue
        else:
            R = np.asarray(refp, dtype=float)

            def phi(X):
                return np.array([np.prod([X[d] if R[d, a] > 0.5 else 1 - X[d] for d in range(dim)]) for a in range(len(vs))])
            X = np.full(dim, 0.5)
            for _ in range(60):
                r = Pc @ phi(X) - x
                J = np.empty((dim, dim))
                for d in range(dim):
                    e = np.zeros(dim)
                    e[d] = 1e-6
                    J[:, d] = (Pc @ phi(X + e) - Pc @ phi(X - e)) / 2e-6
                try:
                    dX = np.linalg.solve(J, r)
                except np.linalg.LinAlgError:
                    break
                X = X - dX
                if np.abs(dX).max() < 1e-13:
                    break
            if np.abs(Pc @ phi(X) - x).max() > 1e-9:
                continue
            wl = phi(X)
        if wl.min() < -tol:
            continue
        w = np.zeros(nv0)
        for a, val in zip(vs, wl):
            w[a] += val
        return w
    return None


def weights_of(h, P0, Mp, names, cells=None, refp=None):
    """Constant weights W[v, a] with Mp[:, v] == sum_a W[v, a] P0[:, a], extracted from the first coordinate row and then
    PROVED for every row by the solver (symbolic mode); least squares on floats in replay mode."""
    dim, nv0 = P0.shape
    nv = Mp.shape[1]
    W = np.zeros((nv, nv0), dtype=object)
    if h.sym_mode:
        zero_env = {n: Fr(0) for n in names}
        for v in range(nv):
            s = tosym(Mp[0, v])
            if s.c is not None:
                raise RuntimeError('weights need symbolic coordinates')
            base = zeval.eval_exact(s.a, zero_env)
            for a in range(nv0):
                nm = tosym(P0[0, a]).a.decl().name()
                env = dict(zero_env)
                env[nm] = Fr(1)
                W[v, a] = zeval.eval_exact(s.a, env) - base
            h.concrete('vertex %d: affine combination (weights sum to one, no constant term)' % v, base == 0 and sum(W[v]) == 1)
            for d in range(dim):
                h.zero('vertex %d [%d] == constant combination of coarse vertices' % (v, d),
                       Mp[d, v] - sum(float(W[v, a]) * P0[d, a] if False else tosym(W[v, a]) * P0[d, a] for a in range(nv0) if W[v, a] != 0))
    else:
        A = np.asarray(P0, dtype=float)
        B = np.asarray(Mp, dtype=float)
        # replay mode: the weights of a fine vertex are its barycentric / multilinear coordinates in a coarse cell containing it
        # (unique per cell; equal for all cells sharing the point), rounded to dyadic rationals
        assert cells is not None, 'replay mode needs the coarse connectivity'
        for v in range(nv):
            w = _float_weights(A, np.asarray(cells), refp, B[:, v])
            if w is None:
                h.concrete('vertex %d lies in a coarse cell' % v, False)
                W[v] = [Fr(0)] * nv0
                continue
            W[v] = [Fr(float(x)).limit_denominator(64) for x in w]
        for v in range(nv):
            for d in range(dim):
                h.zero('vertex %d [%d] == constant combination of coarse vertices' % (v, d),
                       B[d, v] - sum(float(W[v, a]) * A[d, a] for a in range(nv0)))
    return W


def _fdet(M):
    n = len(M)
    if n == 1:
        return M[0][0]
    tot = Fr(0)
    for j in range(n):
        if M[0][j] == 0:
            continue
        minor = [row[:j] + row[j + 1:] for row in M[1:]]
        tot += (-1) ** j * M[0][j] * _fdet(minor)
    return tot


def support(W, v):
    return frozenset(a for a in range(W.shape[1]) if W[v, a] != 0)


def cell_measure(P, cell, kind):
    if kind in ('line', 'tri', 'tet'):
        if kind == 'line':
            return P[0, cell[1]] - P[0, cell[0]]
        return simplex_det(P, cell)
    if kind == 'quad':
        # shoelace (twice the signed area)
        s = 0
        for i in range(4):
            a, b = cell[i], cell[(i + 1) % 4]
            s = s + P[0, a] * P[1, b] - P[0, b] * P[1, a]
        return s
    raise ValueError(kind)


KIND = dict(MeshLine1='line', MeshTri1='tri', MeshQuad1='quad', MeshTet1='tet', MeshHex1='hex', MeshTri2='tri', MeshQuad2='quad',
            MeshTet2='tet', MeshHex2='hex')
SUPPORTS_BOUNDARIES = ('line', 'tri', 'quad')


def analyse(h, tag, m, M, k, names, marked=None, expect_children=None):
    """All obligations relating the fine mesh M to the coarse mesh m (shared by C12 and C13)."""
    kind = KIND[type(m).__name__]
    P0, t0 = m.doflocs, np.asarray(m.t)
    nvert = m.refdom.nnodes
    t0v = t0[:nvert]
    P1, t1 = M.doflocs, np.asarray(M.t)
    t1v = t1[:nvert]
    dim = P0.shape[0]
    nv0 = int(t0v.max()) + 1
    nv1 = int(t1v.max()) + 1
    # old vertices keep index and position
    for v in range(nv0):
        for d in range(dim):
            h.zero('%s: old vertex %d keeps its position [%d]' % (tag, v, d), P1[d, v] - P0[d, v])
    W = weights_of(h, P0[:, :nv0], P1[:, :nv1], names, cells=t0v, refp=(m.refdom.p if kind in ('quad', 'hex') else None))
    h.concrete('%s: weights non-negative (convex combinations)' % tag, all(W[v, a] >= 0 for v in range(nv1) for a in range(nv0)))
    h.concrete('%s: no duplicate vertices' % tag, len({tuple(W[v]) for v in range(nv1)}) == nv1)
    # parent map
    parent = {}
    ok_parent = True
    for c in range(t1v.shape[1]):
        sup = frozenset().union(*[support(W, v) for v in t1v[:, c]])
        cands = [K for K in range(t0v.shape[1]) if sup <= frozenset(t0v[:, K].tolist())]
        if len(cands) != 1:
            ok_parent = False
            parent[c] = cands[0] if cands else -1
        else:
            parent[c] = cands[0]
    h.concrete('%s: every new cell lies in exactly one old cell' % tag, ok_parent, str(parent))
    children = {K: [c for c, q in parent.items() if q == K] for K in range(t0v.shape[1])}
    if marked is None:
        h.concrete('%s: 2^(d k) children per cell' % tag, all(len(ch) == 2 ** (dim * k) for ch in children.values()),
                   str({K: len(v) for K, v in children.items()}))
    else:
        h.concrete('%s: every marked cell is subdivided' % tag, all(len(children[K]) >= 2 for K in marked),
                   str({K: len(v) for K, v in children.items()}))
    # measure
    if kind in ('line', 'tri', 'tet', 'quad'):
        for K, ch in children.items():
            mp_ = cell_measure(P0, t0v[:, K], kind)
            if kind != 'quad' and (marked is not None or kind == 'line'):
                # simplices: child vertices are (proved) constant affine combinations of the parent's vertices, so
                # vol(child) = |det(weights)| vol(parent) for ALL geometries: exact rational arithmetic on the weights
                tot = Fr(0)
                okc = True
                for c in ch:
                    Wc = [[Fr(W[v, a]) for a in t0v[:, K]] for v in t1v[:, c]]
                    dw = _fdet(Wc)
                    okc = okc and dw != 0
                    tot += abs(dw)
                h.concrete('%s: children of cell %d are non-degenerate and their measures add up to its measure' % (tag, K),
                           okc and tot == 1, 'sum of |det(weights)| = %s' % tot)
            elif kind == 'quad':
                tot = 0
                for c in ch:
                    mc = cell_measure(P1, t1v[:, c], kind)
                    # children keep the orientation of the parent (no inverted cells) and are non-degenerate
                    h.valid('%s: child %d of cell %d has the orientation of its parent' % (tag, c, K), mc * mp_ > 0, kinds=('nlsat', 'default'))
                    tot = tot + mc
                h.zero('%s: measures of the children of cell %d add up to its measure' % (tag, K), tot - mp_)
            else:
                for c in ch:
                    mc = cell_measure(P1, t1v[:, c], kind)
                    h.zero('%s: det(child %d)^2 * %d == det(parent %d)^2' % (tag, c, 4 ** (dim * k), K),
                           mc * mc * (4 ** (dim * k)) - mp_ * mp_)
    # conformity: boundary facets of the fine mesh lie in boundary facets of the coarse mesh
    if dim > 1 or True:
        f0 = np.asarray(m.facets)
        bf0 = [frozenset(f0[:m.brefdom.nnodes if dim > 1 else 1, f].tolist()) for f in np.asarray(m.boundary_facets())]
        f1 = np.asarray(M.facets)
        okb = True
        nb1 = 0
        for f in np.asarray(M.boundary_facets()):
            sup = frozenset().union(*[support(W, v) for v in f1[:M.brefdom.nnodes if dim > 1 else 1, f]])
            nb1 += 1
            if not any(sup <= b for b in bf0):
                okb = False
        h.concrete('%s: every boundary facet of the fine mesh lies in a boundary facet of the coarse mesh (no hanging nodes)' % tag, okb)
        if marked is None:
            h.concrete('%s: boundary facet count' % tag, nb1 == len(bf0) * 2 ** ((dim - 1) * k), '%d vs %d' % (nb1, len(bf0) * 2 ** ((dim - 1) * k)))
    # named subdomains
    if m.subdomains is not None:
        if M.subdomains is None:
            h.concrete('%s: subdomain names survive refinement' % tag, False, 'dropped')
        else:
            for name, ixs in m.subdomains.items():
                want = sorted(c for K in np.asarray(ixs).tolist() for c in children[K])
                got = sorted(np.asarray(M.subdomains.get(name, [])).tolist())
                h.concrete('%s: subdomain "%s" == children of its cells' % (tag, name), got == want, 'got %s want %s' % (got[:12], want[:12]))
    # named boundaries
    if m.boundaries is not None:
        if M.boundaries is None:
            h.concrete('%s: boundary names are dropped only where propagation is unsupported' % tag,
                       kind not in SUPPORTS_BOUNDARIES or marked is not None, kind)
        else:
            nf = m.brefdom.nnodes if dim > 1 else 1
            for name, ixs in m.boundaries.items():
                old = [frozenset(f0[:nf, f].tolist()) for f in np.asarray(ixs).tolist()]
                got = np.asarray(M.boundaries.get(name, [])).tolist()
                ok = len(set(got)) == len(got)
                covered = {}
                for f in got:
                    sup = frozenset().union(*[support(W, v) for v in f1[:nf, f]])
                    hit = [i for i, b in enumerate(old) if sup <= b]
                    if len(hit) != 1:
                        ok = False
                    else:
                        covered[hit[0]] = covered.get(hit[0], 0) + 1
                if marked is None:
                    ok = ok and all(covered.get(i, 0) == 2 ** ((dim - 1) * k) for i in range(len(old)))
                else:
                    ok = ok and all(covered.get(i, 0) >= 1 for i in range(len(old)))
                h.concrete('%s: boundary "%s" designates exactly the sub-facets of its facets' % (tag, name), ok,
                           'got %s covered %s of %d' % (got[:10], covered, len(old)))
    return W, parent, children


def tag_sets(ncells, nfacets, rng, quick):
    subs = []
    cells = list(range(ncells))
    for r in range(1, ncells + 1):
        for c in itertools.combinations(cells, r):
            subs.append(list(c))
    fsubs = []
    fl = list(range(nfacets))
    allf = [list(c) for r in range(1, nfacets + 1) for c in itertools.combinations(fl, r)]
    if len(allf) > (8 if quick else 64):
        idx = sorted(rng.choice(len(allf), 8 if quick else 64, replace=False))
        allf = [allf[i] for i in idx] + [fl]
    return subs, allf


def uniform_config(h, mesh, k, pt=None, sub=None, bnd=None, mesh_kw=None, cls=None, free=None):
    with warnings.catch_warnings():
        warnings.simplefilter('ignore')
        m = make_mesh(h, mesh, pt=pt, cls=cls, free=free, **(mesh_kw or {}))
        names = [tosym(x).a.decl().name() for x in m.doflocs.ravel() if h.sym_mode and tosym(x).c is None] if h.sym_mode else []
        if sub:
            m = m.with_subdomains({n: np.array(v, dtype=np.int32) for n, v in sub.items()})
        if bnd:
            m = m.with_boundaries({n: np.array(v, dtype=np.int32) for n, v in bnd.items()})
        h.sample(dict(mesh=mesh, k=k, cells=np.asarray(m.t).T.tolist(), subdomains=sub, boundaries=bnd, **({'mesh_kw': str(mesh_kw)} if mesh_kw else {})))
        M = m.refined(k)
        h.concrete('same mesh class', type(M) is type(m))
        analyse(h, 'k=%d' % k, m, M, k, names)


def second_order_config(h, mesh, cls, sub=None, bnd=None):
    """Second-order classes with straight facets: the first-order skeleton of refined(1) satisfies the C12 obligations, every
    higher-order node of the fine mesh is the midpoint (centre) of the vertices of its edge (cell), names are carried or dropped."""
    import skfem as S
    with warnings.catch_warnings():
        warnings.simplefilter('ignore')
        m1 = make_mesh(h, mesh)
        names = [tosym(x).a.decl().name() for x in m1.doflocs.ravel() if h.sym_mode and tosym(x).c is None] if h.sym_mode else []
        C = getattr(S, cls)
        m2 = C.from_mesh(m1)
        if sub:
            m2 = m2.with_subdomains({n: np.array(v, dtype=np.int32) for n, v in sub.items()})
        if bnd:
            m2 = m2.with_boundaries({n: np.array(v, dtype=np.int32) for n, v in bnd.items()})
        M2 = m2.refined(1)
        h.concrete('same mesh class', type(M2) is type(m2))
        base = type(m1)
        sk0 = m1        # from_mesh keeps vertex and cell numbering: the first-order mesh itself is the coarse skeleton
        sk1 = base.from_mesh(M2)
        if sub and M2.subdomains is not None:
            sk0 = sk0.with_subdomains({n: np.array(v, dtype=np.int32) for n, v in sub.items()})
            sk1 = sk1.with_subdomains({n: np.asarray(v) for n, v in M2.subdomains.items()})
        if bnd and M2.boundaries is not None:
            sk0 = sk0.with_boundaries({n: np.array(v, dtype=np.int32) for n, v in bnd.items()})
            sk1 = sk1.with_boundaries({n: np.asarray(v) for n, v in M2.boundaries.items()})
        h.sample(dict(mesh=mesh, cls=cls, names_after=dict(subdomains=None if M2.subdomains is None else sorted(M2.subdomains),
                                                          boundaries=None if M2.boundaries is None else sorted(M2.boundaries))))
        analyse(h, 'skeleton k=1', sk0, sk1, 1, names)
        # higher-order nodes of the fine mesh sit at the midpoints of their edges / centres of their cells
        P = M2.doflocs
        ed = np.asarray(M2.dofs.element_dofs)
        e = M2.elem()
        D = np.asarray(e.doflocs, dtype=float)
        nvert = M2.refdom.nnodes
        R = np.asarray(M2.refdom.p, dtype=float)
        for c in range(min(ed.shape[1], 4)):
            for a in range(nvert, ed.shape[0]):
                # the reference node is the average of the reference vertices it lies between (straight facets)
                ws = [v for v in range(nvert) if all(abs(D[a, i] - R[i, v]) <= 0.5 + 1e-12 for i in range(R.shape[0]))]
                lam = np.linalg.lstsq(np.vstack([R[:, :nvert], np.ones(nvert)]), np.concatenate([D[a], [1.0]]), rcond=None)[0]
                if M2.refdom.__name__ in ('RefQuad', 'RefHex'):
                    from engine.zoo import ref_weights
                    lam = [float(x) for x in ref_weights(M2.refdom, list(D[a]))]
                lam = [Fr(float(x)).limit_denominator(8) for x in lam]
                want = [sum((tosym(lam[v]) if h.sym_mode else float(lam[v])) * P[i, ed[v, c]] for v in range(nvert)) for i in range(P.shape[0])]
                for i in range(P.shape[0]):
                    h.zero('cell %d node %d [%d] is the straight-facet position' % (c, a, i), P[i, ed[a, c]] - want[i])


def build_configs(tier, seed):
    quick = tier == 'quick'
    rng = np.random.RandomState(seed)
    cfgs = []

    def add(name, **kw):
        opts = dict(timeout=kw.pop('timeout', 400 if quick else 2400), maxpaths=kw.pop('maxpaths', 64 if quick else 1024))
        cfgs.append(dict(name=name, fn=uniform_config, kw=kw, opts=opts))

    def tagged(prefix, mesh, ncells, nfacets, ks=(1,), pts=(None,), **kw):
        subs, fsubs = tag_sets(ncells, nfacets, rng, quick)
        for pi, pt in enumerate(pts):
            for k in ks:
                # all cell subsets as subdomains (several names at once), facet subsets (interior facets included) as boundaries
                sub = {'s%d' % i: s for i, s in enumerate(subs)}
                for bi in range(0, len(fsubs), 4):
                    bnd = {'b%d' % (bi + j): f for j, f in enumerate(fsubs[bi:bi + 4])}
                    add('%s/numbering%d/k=%d/tags%d' % (prefix, pi, k, bi // 4), mesh=mesh, k=k, pt=pt, sub=sub, bnd=bnd, **kw)
    # line
    tagged('line3', 'line3', 3, 4, ks=(1, 2) if not quick else (1,), pts=(None, topo('line3perm')))
    # triangles: several numberings
    tagged('tri2', 'tri2', 2, 5, ks=(1,) if quick else (1, 2), pts=(None, renumbered('tri2', (2, 0, 3, 1)), renumbered('tri2', (3, 1, 0, 2))))
    if not quick:
        tagged('tri3fan', 'tri3fan', 3, 7)
    else:
        # several passes in ONE call (tags are carried pass by pass)
        add('line3perm/k=2', mesh='line3', k=2, pt=topo('line3perm'), sub={'s0': [0], 's12': [1, 2]}, bnd={'b': [0, 3]})
        add('line3perm/k=3', mesh='line3', k=3, pt=topo('line3perm'), sub={'s1': [1]})
        add('tri2/k=2', mesh='tri2', k=2, sub={'s0': [0], 's1': [1]}, bnd={'b': [0, 2]}, timeout=900)
    # triangles with per-cell vertex sorting switched off (what Mesh.oriented() returns)
    subs, fsubs = tag_sets(2, 5, rng, quick)
    for pi, perm in enumerate([(1, 3, 0, 2), (2, 0, 3, 1)] + ([] if quick else [(3, 2, 1, 0), (0, 2, 1, 3)])):
        add('tri2/sort_t=False/numbering%d' % pi, mesh='tri2', k=1, pt=renumbered('tri2', perm), mesh_kw=dict(sort_t=False),
            sub={'s0': [1]}, bnd={'b%d' % i: f for i, f in enumerate(fsubs[:6])})
    # quadrilaterals: cyclic shifts (a facet can be local facet 0 of one cell and local facet 1 of its neighbour)
    for (r0, r1) in [(a, b) for a in range(4) for b in range(4)]:
        subs, fsubs = tag_sets(2, 7, rng, quick)
        add('quad2/shift=%d%d/k=1' % (r0, r1), mesh='quad2', k=1, pt=shifted('quad2', (r0, r1)), sub={'s0': [0], 's1': [1], 's01': [0, 1]},
            bnd={'b%d' % i: f for i, f in enumerate(fsubs[:8] + [[f_] for f_ in range(7)])})
    if not quick:
        add('quad2/k=2', mesh='quad2', k=2, sub={'s0': [0]}, bnd={'b': [0, 3, 5]})
    # tetrahedra: the shortest-diagonal choice forks; subdomains on a two-cell mesh
    add('tet1/k=1', mesh='tet1', k=1, sub={'s0': [0]}, timeout=900)
    add('tet2/k=1/free=0,4', mesh='tet2', k=1, free=None if not quick else None, sub={'s0': [0], 's1': [1]}, bnd={'b': [0, 1]}, timeout=1500 if quick else 3000,
        maxpaths=16 if quick else 256)
    # second-order classes with straight facets
    for mesh, cls in [('tri2', 'MeshTri2'), ('quad2', 'MeshQuad2'), ('tet2', 'MeshTet2'), ('hex2', 'MeshHex2')] + ([] if quick else [('tet1', 'MeshTet2'), ('hex1', 'MeshHex2')]):
        cfgs.append(dict(name='second-order/%s/%s' % (mesh, cls), fn=second_order_config,
                         kw=dict(mesh=mesh, cls=cls, sub={'s0': [0]}, bnd={'b': [0, 1]}), opts=dict(timeout=900 if quick else 3000, maxpaths=64)))
    # hexahedra
    add('hex1/k=1', mesh='hex1', k=1, sub={'s0': [0]}, timeout=900)
    add('hex2/k=1', mesh='hex2', k=1, sub={'s0': [0], 's1': [1]}, bnd={'b': [0]}, timeout=1500)
    return cfgs


META = dict(
    explanation='The real refined(k) runs on meshes whose vertex coordinates are ALL symbolic.  Every new vertex is shown (by the solver) to be '
                'a constant convex combination of coarse vertices; from these weights the child-in-parent map, the no-hanging-node condition '
                '(boundary facets of the fine mesh inside boundary facets of the coarse mesh), distinctness and the tag obligations follow '
                'concretely for ALL geometries; measures are compared by polynomial identities (det(child)^2 4^d == det(parent)^2, signed areas '
                'add up) and sign inequalities under mesh validity.  The tetrahedral refiner\'s shortest-diagonal choice is explored path by path.',
    symbolic='all vertex coordinates',
    bounds=dict(meshes='1-3 cell meshes per class in several numberings / cyclic shifts / sort_t=False', tags='all cell subsets as subdomains; 8 (thorough 64) '
                       'random facet subsets + single facets (interior facets included) as boundaries', k='1 (thorough also 2 for line/tri/quad)'),
    outside=['curved second-order meshes', 'meshes larger than the zoo', 'measure identity for hexahedra (containment, counts and tags only)'],
    stubs=[],
    assumptions=['mesh validity (non-degenerate cells, neighbours on opposite sides, convex quadrilaterals)'],
    design_ref='DESIGN.md 4/C12',
)

if __name__ == '__main__':
    sys.exit(harness.main('C12', 'checks.c12', build_configs, META))
