"""C16 - threaded assembly equals serial assembly under every schedule.

Trace extraction from the real code: ``bilinear_form.Thread`` is replaced by a recording stub and ``np.zeros`` (for the 3-D
output block only) by a write/read-tracing ndarray; the real ``BilinearForm._assemble`` runs (np.array_split and all) which yields
per-worker argument lists and the main thread's start/join/flatten order; each worker's real ``_threaded_kernel`` is then run on
the tracing array with SYMBOLIC basis values (symbolic mesh geometry and parameter), so every kernel invocation yields
(slot written, symbolic value).  SMT: (a) each written value is identically the serial value of that slot (identity in the
geometry/parameter symbols); (b) one integer position per event, program order per worker, start < events < join where the
trace contains those calls: "exists a schedule in which some write comes after the main thread's read" must be unsat;
(c) every local pair written exactly once, shared inputs unchanged (read off the trace).
"""
import sys
import threading
import time
import warnings

import numpy as np
import z3

from engine import harness
from engine.sym import Sym, SymBool
from engine.zoo import make_mesh


class TracedData(np.ndarray):
    """Output block of _assemble, whatever its layout: a write is logged as (flat positions, values)."""
    log = None
    actor = ['main']

    def __setitem__(self, key, value):
        if TracedData.log is not None:
            base = np.asarray(self)
            pos = np.arange(base.size).reshape(base.shape)[key]
            vals = np.broadcast_to(np.asarray(value, dtype=base.dtype if base.dtype != object else object), np.shape(pos))
            TracedData.log.append(('write', TracedData.actor[0], np.asarray(pos).ravel().copy(), np.asarray(vals).ravel().copy()))
        np.ndarray.__setitem__(self, key, value)

    def flatten(self, *a, **k):
        if TracedData.log is not None:
            TracedData.log.append(('read', TracedData.actor[0]))
        return np.asarray(self).flatten(*a, **k)


class RecThread:
    threads = []
    log = None

    def __init__(self, target=None, args=(), kwargs=None, **kw):
        self.target, self.args, self.kwargs = target, args, kwargs or {}
        self.id = len(RecThread.threads)
        RecThread.threads.append(self)

    def start(self):
        TracedData.log.append(('start', self.id))
        self.started = True

    def run_now(self):
        """Run the worker body (the legal schedule 'a worker runs when the main thread waits for it')."""
        if getattr(self, 'ran', False) or not getattr(self, 'started', False):
            return
        self.ran = True
        prev = TracedData.actor[0]
        TracedData.actor[0] = self.id
        try:
            if RecThread.before is not None:
                RecThread.before(self)
            self.target(*self.args, **self.kwargs)
            if RecThread.after is not None:
                RecThread.after(self)
        finally:
            TracedData.actor[0] = prev

    before = None
    after = None

    def join(self, timeout=None):
        self.run_now()
        TracedData.log.append(('join', self.id))

    def is_alive(self):
        return False

    daemon = False


def _snap(objs):
    out = []
    for o in objs:
        if isinstance(o, np.ndarray):
            out.append((o, o.copy()))
    return out


def _same(snap):
    for o, c in snap:
        if o.shape != c.shape:
            return False
        if o.dtype == object:
            for u, v in zip(o.ravel(), c.ravel()):
                if u is v:
                    continue
                if isinstance(u, Sym) and isinstance(v, Sym):
                    if not u.a.eq(v.a):
                        return False
                elif u != v:
                    return False
        elif not np.array_equal(o, c):
            return False
    return True


def _arrays_of(basis_list):
    out = []
    for b in basis_list:
        for df in (b if isinstance(b, tuple) else (b,)):
            for f in df:
                if isinstance(f, np.ndarray):
                    out.append(f)
    return out


PAIRS = {
    # name: (mesh, trial element ctor, test element ctor)  -> Nbfun_u x Nbfun_v
    '1x1': ('line2', 'ElementLineP0', 'ElementLineP0'),
    '2x1': ('line2', 'ElementLineP1', 'ElementLineP0'),
    '1x2': ('line2', 'ElementLineP0', 'ElementLineP1'),
    '2x2': ('line2', 'ElementLineP1', 'ElementLineP1'),
    '3x2': ('line2', 'ElementLineP2', 'ElementLineP1'),
    '2x3': ('line2', 'ElementLineP1', 'ElementLineP2'),
    '3x3': ('line2', 'ElementLineP2', 'ElementLineP2'),
    '3x1': ('line2', 'ElementLineP2', 'ElementLineP0'),
    # vector-valued fields: the integrand takes components u[0], v[1] and works on them IN PLACE (legal: indexing a field hands out a copy)
    'vec4x4': ('line2', 'ElementVector(ElementLineP1(), 2)', 'ElementVector(ElementLineP1(), 2)'),
    'vec6x6': ('tri1', 'ElementVector(ElementTriP1())', 'ElementVector(ElementTriP1())'),
    '6x3': ('tri1', 'ElementTriP2', 'ElementTriP1'),
    '3x6': ('tri1', 'ElementTriP1', 'ElementTriP2'),
}


def threads_config(h, pair, nthreads_list):
    import importlib
    import skfem as S
    bfm = importlib.import_module('skfem.assembly.form.bilinear_form')
    mesh, eu, ev = PAIRS[pair]
    dt = object if h.sym_mode else np.float64
    with warnings.catch_warnings():
        warnings.simplefilter('ignore')
        m = make_mesh(h, mesh)
        from checks.c09 import make_elem
        vb = S.CellBasis(m, make_elem(ev) if '(' in ev else getattr(S, ev)(), intorder=4)
        ub = S.CellBasis(m, make_elem(eu) if '(' in eu else getattr(S, eu)(), intorder=4)
    c = h.sym('c', (), nominal=1.375)

    if pair.startswith('vec'):
        def form(u, v, w):
            ux = u[0]
            ux *= 2              # in place on what indexing returned
            vy = v[-1]
            vy += w.c
            return ux * vy + u[0] * v[0] * w.x[0] + u.grad[0, 0] * v[-1]
    else:
        def form(u, v, w):
            return u.grad[0] * v + w.c * u * v + 2 * u * v.grad[0] * w.x[0]

    Nu, Nv, nt = ub.Nbfun, vb.Nbfun, m.t.shape[1]
    F0 = S.BilinearForm(form, dtype=dt, nthreads=0)
    _, data0, _, _ = F0._assemble(ub, vb, c=c)
    serial = np.asarray(data0).ravel()        # flat, in the order of the returned rows/cols arrays
    if h.sym_mode:
        # the serial values must differ between slots, otherwise a wrong-slot write could not be seen
        h.canary('canary: first and last slot hold different values',
                 serial[:nt] - serial[-nt:] + (1 if (Nu, Nv) == (1, 1) else 0))
    h.sample(dict(local_matrix='%dx%d' % (Nu, Nv), cells=int(nt), nthreads=list(nthreads_list)))

    real_np, real_Thread = bfm.np, bfm.Thread

    class TracingNP:
        def __getattr__(self, k):
            return getattr(real_np, k)

        def zeros(self, shape, dtype=None, **kw):
            a = real_np.zeros(shape, dtype=dtype, **kw)
            # the output block: the allocation of the form's dtype with one entry per (local pair, cell)
            if a.size == Nu * Nv * nt and dtype is dt and not seen_block:
                seen_block.append(1)
                return a.view(TracedData)
            return a

    for nth in nthreads_list:
        tag = 'nthreads=%d' % nth
        # ---- trace extraction from the real _assemble ----------------------------------------------------------
        TracedData.log = []
        TracedData.actor = ['main']
        RecThread.threads = []
        seen_block = []
        bfm.np, bfm.Thread = TracingNP(), RecThread
        try:
            F = S.BilinearForm(form, dtype=dt, nthreads=nth)
            wd = []
            k0 = F._kernel

            def kernel_spy(u_, v_, w_, dx_):
                if not wd:
                    wd.append(w_)
                return k0(u_, v_, w_, dx_)
            F._kernel = kernel_spy
            inputs = _arrays_of(list(ub.basis) + list(vb.basis)) + [ub.dx]
            snaps = {}

            def before(th):
                snaps[th.id] = _snap(inputs)

            def after(th):
                ok = _same(snaps[th.id])
                if wd:
                    ok = ok and _same(_snap([v for v in wd[0].values() if isinstance(v, np.ndarray)]))
                h.concrete('%s: worker %d leaves shared inputs unchanged' % (tag, th.id), ok)
            RecThread.before, RecThread.after = before, after
            F._assemble(ub, vb, c=c)
            workers = list(RecThread.threads)
            for th in workers:
                th.run_now()      # started but never joined: may run arbitrarily late
            full = list(TracedData.log)
            mainlog = [e for e in full if e[0] in ('start', 'join') or (e[0] == 'read' and e[1] == 'main')]
            per = [[e for e in full if e[0] == 'write' and e[1] == th.id] for th in workers]
        finally:
            bfm.np, bfm.Thread = real_np, real_Thread
            TracedData.log = None
        # ---- (c) every entry of the block written exactly once, by a started worker ---------------------------
        started = [e[1] for e in mainlog if e[0] == 'start']
        joined = [e[1] for e in mainlog if e[0] == 'join']
        count = np.zeros(Nu * Nv * nt, dtype=int)
        writes = []
        for t, wl in enumerate(per):
            for k, (_, actor, pos, vals) in enumerate(wl):
                if t in started:
                    np.add.at(count, pos, 1)
                writes.append((t, k, pos, vals))
        h.concrete('%s: every local pair written exactly once' % tag, bool((count == 1).all()), str(count.tolist()))
        h.concrete('%s: main thread reads the block once, after its last start/join' % tag,
                   [e[0] for e in mainlog].count('read') == 1 and mainlog[-1][0] == 'read', str([e[:2] for e in mainlog]))
        # ---- (a) each written value is the serial value of its slot ----------------------------------------------
        for (t, k, pos, vals) in writes:
            h.zero('threaded==serial[%s worker=%d write=%d flat=%d..]' % (tag, t, k, int(pos[0]) if len(pos) else -1),
                   np.asarray(vals) - serial[pos], scale=1.0)
        # ---- (b) schedules ---------------------------------------------------------------------------------------
        if h.sym_mode:
            pos = {}
            cons = []
            prev = None
            R = None
            for n_, e in enumerate(mainlog):
                p = z3.Int('main_%d_%s' % (n_, e[0]))
                pos[('main', n_)] = p
                if prev is not None:
                    cons.append(prev < p)
                prev = p
                if e[0] == 'read':
                    R = p
            wpos = []
            for t, wl in enumerate(per):
                if t not in started or not wl:
                    continue
                st = pos[('main', [n_ for n_, e in enumerate(mainlog) if e[0] == 'start' and e[1] == t][0])]
                prevw = st
                for k in range(len(wl)):
                    p = z3.Int('w_%d_%d' % (t, k))
                    cons.append(prevw < p)
                    prevw = p
                    wpos.append(p)
                if t in joined:
                    jn = pos[('main', [n_ for n_, e in enumerate(mainlog) if e[0] == 'join' and e[1] == t][0])]
                    cons.append(prevw < jn)
            allp = list(pos.values()) + wpos
            if len(allp) > 1:
                cons.append(z3.Distinct(*allp))
            if R is not None and wpos:
                goal = z3.And(*[p < R for p in wpos])
                h.valid('%s: schedule: every write precedes the read of the block' % tag,
                        SymBool(z3.Implies(z3.And(*cons), goal)), kinds=('default',))
                if nth == nthreads_list[0]:
                    # canary: without the join edges the schedule query must become satisfiable
                    cons2 = [c_ for c_ in cons if 'join' not in str(c_)]
                    s = z3.Solver()
                    s.add(*cons2, z3.Not(goal))
                    h.concrete('%s: canary: dropping the join edges admits a bad schedule' % tag, str(s.check()) == 'sat')
        else:
            # float replay on REAL threads: (i) as is, (ii) with adversarially slow workers (any write that is not ordered
            # before the read by a join then happens after it)
            A0 = S.BilinearForm(form, nthreads=0).assemble(ub, vb, c=c).toarray()
            A1 = S.BilinearForm(form, nthreads=nth).assemble(ub, vb, c=c).toarray()
            h.zero('threaded==serial[%s real threads]' % tag, A1 - A0, scale=max(1.0, np.abs(A0).max()))
            # (iii) late starters: no worker begins to run before the main thread has reached its first join (or 1 s)
            go = threading.Event()

            class LateThread(threading.Thread):
                def run(self):
                    go.wait(timeout=1.0)
                    threading.Thread.run(self)

                def join(self, timeout=None):
                    go.set()
                    threading.Thread.join(self, timeout)
            bfm.Thread = LateThread
            try:
                A3 = S.BilinearForm(form, nthreads=nth).assemble(ub, vb, c=c).toarray()
            finally:
                bfm.Thread = real_Thread
                go.set()
            time.sleep(0.05)
            h.zero('threaded==serial[%s real threads, late start]' % tag, A3 - A0, scale=max(1.0, np.abs(A0).max()))
            if not np.allclose(A3, A0, rtol=1e-9, atol=1e-12):
                h.failed_keys.append(('%s: every local pair written exactly once' % tag, float(np.abs(A3 - A0).max())))
            # (ii) for each worker in turn: that worker's first kernel call waits until the main thread has read the block
            # (or 1 s, which is what happens when the main thread correctly blocks in join on it)
            class TaggedThread(threading.Thread):
                counter = [0]

                def __init__(self, *a, **k):
                    threading.Thread.__init__(self, *a, **k)
                    self.widx = TaggedThread.counter[0]
                    TaggedThread.counter[0] += 1
            for victim in range(nth):
                Fs = S.BilinearForm(form, nthreads=nth)
                orig_kernel, orig_asm = Fs._kernel, Fs._assemble
                read_done = threading.Event()
                waited = threading.local()

                def slow_kernel(*a, **k):
                    me = threading.current_thread()
                    if getattr(me, 'widx', None) == victim and not getattr(waited, 'done', False):
                        waited.done = True
                        read_done.wait(timeout=1.0)
                    return orig_kernel(*a, **k)

                def asm(*a, **k):
                    out = orig_asm(*a, **k)
                    read_done.set()
                    return out
                Fs._kernel, Fs._assemble = slow_kernel, asm
                TaggedThread.counter[0] = 0
                bfm.Thread = TaggedThread
                try:
                    A2 = Fs.assemble(ub, vb, c=c).toarray()
                finally:
                    bfm.Thread = real_Thread
                if not np.allclose(A2, A0, rtol=1e-9, atol=1e-12):
                    h.failed_keys.append(('%s: schedule: every write precedes the read of the block' % tag, float(np.abs(A2 - A0).max())))
                    time.sleep(0.2)
                    break


def build_configs(tier, seed):
    quick = tier == 'quick'
    cfgs = []
    pairs = ['1x1', '2x1', '1x2', '2x2', '3x2', '2x3'] if quick else [p for p in PAIRS if not p.startswith('vec')]
    cfgs.append(dict(name='local=vec4x4/in-place-integrand', fn=threads_config, kw=dict(pair='vec4x4', nthreads_list=[1, 3]), opts=dict(timeout=900)))
    if not quick:
        cfgs.append(dict(name='local=vec6x6/in-place-integrand', fn=threads_config, kw=dict(pair='vec6x6', nthreads_list=[2, 5]), opts=dict(timeout=900)))
    for p in pairs:
        Nu, Nv = [int(x) for x in p.split('x')]
        top = Nu * Nv + 2
        nl = list(range(1, (min(top, 8) if quick else top) + 1))
        cfgs.append(dict(name='local=%s' % p, fn=threads_config, kw=dict(pair=p, nthreads_list=nl), opts=dict(timeout=900)))
    return cfgs


META = dict(
    explanation='The real BilinearForm._assemble runs with a recording Thread stub and a tracing output block, then each worker\'s real '
                '_threaded_kernel runs on symbolic basis values.  z3 decides (a) every value a worker writes is identically the serial '
                'value of that slot, (b) over ALL interleavings (one integer position per start/kernel/join/read event, program order and '
                'start/join edges taken from the trace) no write can follow the main thread\'s read; (c) exactly-once and '
                'inputs-unchanged are read off the trace.  Counterexamples are replayed on real threads (also with delayed workers).',
    symbolic='event positions (the schedule); mesh geometry and a scalar parameter (kernel values)',
    bounds=dict(local_sizes='quick: 1x1..3x2/2x3; thorough adds 3x3, 3x1, 6x3, 3x6', nthreads='1..Nu*Nv+2 (quick: capped at 8)',
                granularity='one event per kernel invocation (the unit at which workers write)'),
    outside=['NumPy-internal atomicity of a slot assignment', 'GIL release points inside a kernel'],
    stubs=['threading.Thread inside skfem.assembly.form.bilinear_form -> recording stub (start/join logged, target run afterwards by the harness)',
           'np.zeros for the 3-D output block -> write/flatten-tracing ndarray subclass'],
    assumptions=['the trace (which worker gets which index pairs, start/join/read order) does not depend on data values'],
    design_ref='DESIGN.md 4/C16',
)

if __name__ == '__main__':
    sys.exit(harness.main('C16', 'checks.c16', build_configs, META))
