"""Topology zoo and symbolic-geometry helpers (DESIGN 2.6, 2.7).

``make_mesh(h, kind, name)`` builds a small mesh of the given class from explicit (p, t); in symbolic mode the
vertex coordinates are fresh reals (all of them, or the subset ``free``) and the documented precondition
"conforming mesh of non-degenerate cells" is added as an assumption.
"""
import itertools
import numpy as np

from .sym import Sym, tosym
from .symnp import det_obj

# ---------------------------------------------------------------------------------------------------------
# nominal topologies: generic (no symmetry) rational coordinates with denominator 64
# ---------------------------------------------------------------------------------------------------------
TOPO = {
    # name: (mesh class name, p (dim x nverts), t (nnodes x ncells))
    'line2': ('MeshLine1', [[0.0, 0.40625, 1.0]], [[0, 1], [1, 2]]),
    'line3': ('MeshLine1', [[0.0, 0.40625, 1.0, 1.71875]], [[0, 1, 2], [1, 2, 3]]),
    'line3perm': ('MeshLine1', [[1.0, 0.0, 1.71875, 0.40625]], [[1, 3, 0], [3, 0, 2]]),
    'tri1': ('MeshTri1', [[0.0, 1.0, 0.28125], [0.0, 0.125, 0.90625]], [[0], [1], [2]]),
    # Heronian triangle (sides 13, 14, 15, rotated by the rational rotation (3/5, 4/5), scaled by 1/16): all edge lengths
    # and unit normals are rational, so globally defined elements (which normalise normals) stay in exact arithmetic
    'tri1heron': ('MeshTri1', [[0.0, 0.525, -0.4125], [0.0, 0.7, 0.7]], [[0], [1], [2]]),
    # two Heronian triangles (13, 14, 15) sharing the edge of length 14, same rational rotation and scale
    'tri2heron': ('MeshTri1', [[-0.4125, 0.0, 0.525, 0.9375], [0.7, 0.0, 0.7, 0.0]], [[0, 1], [1, 2], [2, 3]]),
    # the same pair without the rotation: dyadic coordinates (exact under power-of-two scaling)
    'tri2heron0': ('MeshTri1', [[0.3125, 0.0, 0.875, 0.5625], [0.75, 0.0, 0.0, -0.75]], [[0, 1], [1, 2], [2, 3]]),
    'tri2': ('MeshTri1', [[0.0, 1.0, 0.09375, 1.125], [0.0, 0.0625, 0.90625, 1.0625]], [[0, 1], [1, 2], [2, 3]]),
    'tri2perm': ('MeshTri1', [[1.125, 0.09375, 0.0, 1.0], [1.0625, 0.90625, 0.0, 0.0625]], [[3, 1], [2, 3], [1, 0]]),
    'tri3fan': ('MeshTri1', [[0.0, 1.0, 0.09375, 1.125, -0.84375], [0.0, 0.0625, 0.90625, 1.0625, 0.5625]],
                [[0, 1, 0], [1, 2, 2], [2, 3, 4]]),
    'tri4patch': ('MeshTri1', [[0.0, 1.0, 1.09375, -0.0625, 0.53125], [0.0, 0.03125, 1.0, 0.9375, 0.40625]],
                  [[0, 1, 2, 3], [1, 2, 3, 0], [4, 4, 4, 4]]),
    'quad1': ('MeshQuad1', [[0.0, 1.0, 1.15625, 0.09375], [0.0, 0.0625, 1.0, 0.875]], [[0], [1], [2], [3]]),
    'quad2': ('MeshQuad1', [[0.0, 1.0, 1.15625, 0.09375, 2.0625, 2.125], [0.0, 0.0625, 1.0, 0.875, -0.09375, 1.09375]],
              [[0, 1], [1, 4], [2, 5], [3, 2]]),
    # an exactly affine cell (unit square) next to a trapezoid: Newton converges in one step on the first only
    'quad2mix': ('MeshQuad1', [[0.0, 1.0, 1.0, 0.0, 2.25, 1.875], [0.0, 0.0, 1.0, 1.0, -0.125, 1.3125]],
                 [[0, 1], [1, 4], [2, 5], [3, 2]]),
    # three quadrilaterals in a row, the LAST cell uses the lowest vertex numbers (cell index 2 is also a vertex index of an edge)
    'quad3row': ('MeshQuad1', [[0.0, 1.0, 1.09375, 0.0625, 2.0625, 2.125, 3.0, 3.15625], [0.0, 0.0625, 1.0, 0.9375, -0.09375, 1.09375, 0.03125, 0.96875]],
                 [[1, 4, 0], [4, 6, 1], [5, 7, 2], [2, 5, 3]]),
    # 2 x 2 patch of quadrilaterals around an interior vertex; the corner vertices (each in ONE cell) carry the highest labels:
    #   6--4--5        labels:  v00=8 v10=0 v20=7 / v01=2 v11=1 v21=3 / v02=6 v12=4 v22=5
    #   2--1--3
    #   8--0--7
    'quad4grid': ('MeshQuad1', [[1.0, 1.15625, 0.09375, 2.125, 1.03125, 2.09375, -0.0625, 2.0625, 0.0],
                                [0.0625, 1.0, 0.875, 1.09375, 2.125, 2.0625, 2.0, -0.09375, 0.0]],
                  [[8, 0, 2, 1], [0, 7, 1, 3], [1, 3, 4, 5], [2, 1, 6, 4]]),
    'tet1': ('MeshTet1', [[0.0, 1.0, 0.125, 0.09375], [0.0, 0.0625, 1.0, 0.15625], [0.0, 0.03125, 0.09375, 1.0]],
             [[0], [1], [2], [3]]),
    'tet2': ('MeshTet1', [[0.0, 1.0, 0.125, 0.09375, 0.90625], [0.0, 0.0625, 1.0, 0.15625, 0.84375],
                          [0.0, 0.03125, 0.09375, 1.0, 0.9375]],
             [[0, 1], [1, 2], [2, 3], [3, 4]]),
    'hex1': ('MeshHex1', None, None),
    'hex2': ('MeshHex1', None, None),
    'wedge1': ('MeshWedge1', None, None),
}


def _init_hex(n):
    import skfem
    if n == 1:
        m = skfem.MeshHex.init_tensor([0.0, 1.0], [0.0, 1.0], [0.0, 1.0])
    else:
        m = skfem.MeshHex.init_tensor([0.0, 1.0, 2.0], [0.0, 1.0], [0.0, 1.0])
    p = np.array(m.p, dtype=float)
    # generic affine distortion + small non-affine jiggle (denominator 64)
    A = np.array([[1.0, 0.125, 0.0625], [0.03125, 0.9375, 0.09375], [0.0625, -0.03125, 1.0625]])
    jig = ((np.arange(p.size).reshape(p.shape) * 37 % 11) - 5) / 64.0
    return A @ p + jig, np.array(m.t)


def _init_wedge():
    import skfem
    m = skfem.MeshWedge1()
    p = np.array(m.p, dtype=float)
    jig = ((np.arange(p.size).reshape(p.shape) * 29 % 9) - 4) / 64.0
    return p + jig, np.array(m.t)


def topo(name):
    cls, p, t = TOPO[name]
    if name == 'hex1':
        p, t = _init_hex(1)
    elif name == 'hex2':
        p, t = _init_hex(2)
    elif name == 'wedge1':
        p, t = _init_wedge()
    return cls, np.array(p, dtype=float), np.array(t, dtype=np.int64)


def renumber(p, t, perm):
    """Vertex renumbering: new index of old vertex v is perm[v]."""
    perm = np.asarray(perm)
    p2 = np.zeros_like(p)
    p2[:, perm] = p
    return p2, perm[t]


# ---------------------------------------------------------------------------------------------------------
# geometry oracles on (possibly symbolic) coordinate arrays
# ---------------------------------------------------------------------------------------------------------
def simplex_det(P, cell):
    """Determinant of the edge matrix of a simplex (d! times signed volume)."""
    d = P.shape[0]
    M = np.empty((d, d), dtype=object)
    for i in range(d):
        for j in range(d):
            M[i, j] = P[i, cell[j + 1]] - P[i, cell[0]]
    return det_obj(M)


def orient(P, verts, x):
    """Signed volume of simplex (verts..., x) with x a coordinate vector."""
    d = P.shape[0]
    M = np.empty((d, d), dtype=object)
    for i in range(d):
        for j in range(d - 1):
            M[i, j] = P[i, verts[j + 1]] - P[i, verts[0]]
        M[i, d - 1] = x[i] - P[i, verts[0]]
    return det_obj(M)


def cross2(a, b):
    return a[0] * b[1] - a[1] * b[0]


def validity(h, cls, P, t):
    """Assume the documented precondition: conforming mesh of non-degenerate cells."""
    d = P.shape[0]
    nt = t.shape[1]
    if cls in ('MeshLine1',):
        for k in range(nt):
            h.assume(P[0, t[0, k]] != P[0, t[1, k]])
        # neighbours on opposite sides of the shared vertex
        for k1 in range(nt):
            for k2 in range(k1 + 1, nt):
                sh = set(t[:, k1]) & set(t[:, k2])
                if len(sh) == 1:
                    v = sh.pop()
                    a = [x for x in t[:, k1] if x != v][0]
                    b = [x for x in t[:, k2] if x != v][0]
                    h.assume((P[0, a] - P[0, v]) * (P[0, b] - P[0, v]) < 0)
        return
    if cls in ('MeshTri1', 'MeshTet1', 'MeshTri2', 'MeshTet2'):
        nv = d + 1
        tt = t[:nv]
        for k in range(nt):
            h.assume(simplex_det(P, tt[:, k]) != 0)
        for k1 in range(nt):
            for k2 in range(k1 + 1, nt):
                sh = sorted(set(tt[:, k1]) & set(tt[:, k2]))
                if len(sh) == d:
                    a = [x for x in tt[:, k1] if x not in sh][0]
                    b = [x for x in tt[:, k2] if x not in sh][0]
                    h.assume(orient(P, sh, P[:, a]) * orient(P, sh, P[:, b]) < 0)
        return
    if cls in ('MeshQuad1', 'MeshQuad2'):
        for k in range(nt):
            c = t[:4, k]
            cr = []
            for i in range(4):
                a, b, e = c[i], c[(i + 1) % 4], c[(i + 3) % 4]
                cr.append(cross2(P[:, b] - P[:, a], P[:, e] - P[:, a]))
            # convex: four corner Jacobians of one sign
            h.assume(h.Or(h.And(*[x > 0 for x in cr]), h.And(*[x < 0 for x in cr])))
        for k1 in range(nt):
            for k2 in range(k1 + 1, nt):
                sh = [x for x in t[:4, k1] if x in set(t[:4, k2])]
                if len(sh) == 2:
                    a = [x for x in t[:4, k1] if x not in sh]
                    b = [x for x in t[:4, k2] if x not in sh]
                    for x in a:
                        for y in b:
                            h.assume(orient(P, sh, P[:, x]) * orient(P, sh, P[:, y]) < 0)
        return
    # hexahedra / wedges (numeric or partly symbolic geometry): Jacobian determinant of one sign at the corners and the centre
    if cls in ('MeshHex1', 'MeshWedge1', 'MeshHex2'):
        import skfem
        from .astdiff import dsym
        refdom = getattr(skfem, cls).elem.refdom
        R = np.asarray(refdom.p, dtype=float)
        nn = R.shape[1]
        X = [Sym.var('Xv!%d' % k) for k in range(3)]
        for k in range(nt):
            cell = t[:nn, k]
            if all(tosym(P[i, v]).c is not None for i in range(3) for v in cell):
                continue
            lam = ref_weights(refdom, X)
            x = [sum(lam[a] * P[dd, cell[a]] for a in range(nn)) for dd in range(3)]
            J = np.empty((3, 3), dtype=object)
            for j in range(3):
                cache = {}       # one cache per differentiation variable
                for i in range(3):
                    J[i, j] = dsym(x[i], X[j], cache)
            detX = tosym(det_obj(J))
            pts = [R[:, a] for a in range(nn)] + [R.mean(axis=1)]
            vals = []
            import z3
            for pt in pts:
                sub = z3.substitute(detX.a, *[(X[j].a, z3.RealVal(str(float(pt[j])))) for j in range(3)])
                vals.append(Sym(z3.simplify(sub)))
            h.assume(h.Or(h.And(*[v > 0 for v in vals]), h.And(*[v < 0 for v in vals])))
    return


def ref_weights(refdom, X):
    """Vertex weights lam_a(X) of the reference map built from refdom.p (affine / multilinear / prism)."""
    name = refdom.__name__
    R = np.asarray(refdom.p, dtype=float)
    dim = R.shape[0]
    lam = []
    if name in ('RefLine', 'RefTri', 'RefTet'):
        for a in range(R.shape[1]):
            if np.allclose(R[:, a], 0):
                lam.append(1 - sum(X[k] for k in range(dim)))
            else:
                lam.append(X[int(np.argmax(R[:, a]))])
    elif name in ('RefQuad', 'RefHex'):
        for a in range(R.shape[1]):
            w = 1
            for k in range(dim):
                w = w * (X[k] if R[k, a] == 1 else (1 - X[k]))
            lam.append(w)
    elif name == 'RefWedge':
        for a in range(R.shape[1]):
            tri = (1 - X[0] - X[1]) if (R[0, a] == 0 and R[1, a] == 0) else (X[0] if R[0, a] == 1 else X[1])
            lam.append(tri * (X[2] if R[2, a] == 1 else (1 - X[2])))
    else:
        raise ValueError(name)
    return lam


def make_mesh(h, name, var='p', free=None, cls=None, pt=None, validity_assumptions=True, **mesh_kw):
    """Build a zoo mesh.  ``free``: None = all coordinates symbolic; iterable of vertex indices = only those;
    'none' = numeric geometry (Gnum)."""
    import skfem
    if pt is None:
        cname, p, t = topo(name)
    else:
        cname, p, t = pt
    if cls is not None:
        cname = cls
    C = getattr(skfem, cname)
    if h.sym_mode:
        P = np.empty(p.shape, dtype=object)
        if free is None:
            fv = set(range(p.shape[1]))
        elif isinstance(free, str) and free == 'none':
            fv = set()
        else:
            fv = set(free)
        S = h.sym(var, p.shape, nominal=p) if fv else None
        for idx in np.ndindex(*p.shape):
            P[idx] = S[idx] if idx[1] in fv else tosym(float(p[idx]))
        m = C(P, t, **mesh_kw)
        if m.doflocs.dtype != object:
            raise RuntimeError('mesh constructor cast symbolic coordinates to float (proxy not installed?)')
        if validity_assumptions:
            validity(h, cname, m.doflocs, np.asarray(m.t))
    else:
        P = h.sym(var, p.shape, nominal=p)
        m = C(np.array(P, dtype=float), t, **mesh_kw)
    return m


def own_det_at(m, cell, Xexpr):
    """Jacobian determinant of the own reference map of `cell` at the reference point given by expressions Xexpr (Syms)."""
    import z3
    from .astdiff import dsym
    refdom = m.refdom
    R = np.asarray(refdom.p, dtype=float)
    dim, nn = R.shape
    P = m.doflocs
    t = np.asarray(m.t)
    X = [Sym.var('Xd!%d' % k) for k in range(dim)]
    lam = ref_weights(refdom, X)
    x = [sum(lam[a] * P[dd, t[a, cell]] for a in range(nn)) for dd in range(dim)]
    J = np.empty((dim, dim), dtype=object)
    for j in range(dim):
        cache = {}
        for i in range(dim):
            J[i, j] = dsym(x[i], X[j], cache)
    d = tosym(det_obj(J))
    if d.c is not None:
        return d
    sub = z3.substitute(d.a, *[(X[j].a, tosym(Xexpr[j]).a) for j in range(dim)])
    return Sym(z3.simplify(sub))


def make_curved(h, name, cls, var='q'):
    """Second-order mesh of class `cls` over topology `name` whose vertices AND higher-order nodes are symbolic (nominal: the
    straight-sided positions plus a dyadic bump of up to 1/32, so that the nominal cells are genuinely curved)."""
    import skfem as S
    from dataclasses import replace
    m1 = make_mesh(h, name)
    C = getattr(S, cls)
    M0 = C.from_mesh(m1)
    nv = m1.p.shape[1]
    _, pn, tn = topo(name)
    Mf = C.from_mesh(getattr(S, type(m1).__name__)(pn, tn))
    nomv = np.asarray(Mf.doflocs, dtype=float)[:, nv:]
    nomv = nomv + ((np.arange(nomv.size).reshape(nomv.shape) * 7 % 5) - 2) / 64.0
    q = h.sym(var, nomv.shape, nominal=nomv)
    P = np.empty(M0.doflocs.shape, dtype=object if h.sym_mode else float)
    P[:, :nv] = M0.doflocs[:, :nv]
    P[:, nv:] = q
    return replace(M0, doflocs=P)
