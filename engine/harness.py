"""Check driver: configurations -> forked workers -> obligations -> replay -> evidence -> exit code.

A *configuration* is a function ``fn(h, **kw)`` that calls the real scikit-fem code.  It is written so
that it runs in two modes through the handle ``h``:
  sym   : inputs are solver terms, obligations are decided by the SMT portfolio (all values)
  float : inputs are concrete float64 numbers (a solver model), plain NumPy/SciPy, no proxy, no stubs
          -> used only to replay counterexamples against the unmodified code before reporting.
Exit codes: 0 held (or only known findings) / 1 VIOLATION / 2 harness error or nothing discharged.
"""
import fnmatch
import json
import multiprocessing as mp
import os
import re
import subprocess
import sys
import time
import traceback

import numpy as np
from fractions import Fraction as Fr
import z3

from . import smt, zeval
from .sym import Sym, SymBool, Ctx, Fr, symarr, const_arr, tosym, isnum, val, flat_syms
from .explorer import Explorer, PathAbort, Infeasible

import logging
logging.getLogger('skfem').setLevel(logging.CRITICAL)      # the library's warnings are not part of any obligation
logging.getLogger().setLevel(logging.CRITICAL)

VERIF = os.path.dirname(os.path.dirname(os.path.abspath(__file__)))
REPO = os.environ.get('VERIF_REPO', '/repo')
FLOAT_TOL = 1e-9


class Skip(Exception):
    """Configuration not applicable (counted, reported, no credit)."""


# ------------------------------------------------------------------------------------------------
# handle
# ------------------------------------------------------------------------------------------------
class H:
    def __init__(self, mode, tier, seed, env=None, ladder=None):
        self.mode = mode
        self.tier = tier
        self.seed = seed
        self.env = env or {}
        self.ex = None
        self.records = []        # per obligation
        self.path = 0
        self.ladder = ladder or (smt.LADDER_QUICK if tier == 'quick' else smt.LADDER_THOROUGH)
        self.failed_keys = []    # float mode
        self.notes = []
        self.samples = []
        self.smt2 = []
        self.stubs = set()
        self.symvars = []
        self.solver_time = 0.0

    sym_mode = property(lambda s: s.mode == 'sym')

    # ---- inputs -------------------------------------------------------------------------------
    def sym(self, name, shape=(), nominal=None):
        """Symbolic real(s) (sym mode) / model values (float mode)."""
        if isinstance(shape, int):
            shape = (shape,)
        nom = np.zeros(shape) if nominal is None else np.broadcast_to(np.asarray(nominal, dtype=float), shape)
        if self.mode == 'sym':
            out = np.empty(shape, dtype=object)
            for idx in np.ndindex(*shape):
                nm = name + ''.join('_%d' % i for i in idx)
                self.ex.declare(nm, float(nom[idx]))
                out[idx] = Sym(z3.Real(nm))
                if self.path == 0:
                    self.symvars.append(nm)
            return out if shape else out[()]
        out = np.empty(shape, dtype=float)
        for idx in np.ndindex(*shape):
            nm = name + ''.join('_%d' % i for i in idx)
            v = self.env.get(nm)
            out[idx] = float(Fr(v)) if v is not None else float(nom[idx])
        return out if shape else float(out[()])

    def const(self, x):
        """Lift concrete data to the mode's array type."""
        if self.mode == 'sym':
            return const_arr(x)
        return np.asarray(x, dtype=float)

    def frac(self, p, q=1):
        """Exact rational constant."""
        if self.mode == 'sym':
            return Sym(z3.RealVal(Fr(p, q)))
        return float(Fr(p, q))

    def assume(self, c):
        if self.mode == 'sym':
            if isinstance(c, SymBool):
                self.ex.assume(c.e)
            elif isinstance(c, z3.ExprRef):
                self.ex.assume(c)
            else:
                self.ex.assume(bool(c))
        else:
            if not bool(c):
                self.notes.append('float replay: an assumption is false at the model point')
                self.assumption_failed = True

    assumption_failed = False

    # ---- boolean combinators usable in both modes ------------------------------------------------
    @staticmethod
    def _e(c):
        if isinstance(c, SymBool):
            return c.e
        if isinstance(c, z3.ExprRef):
            return c
        return z3.BoolVal(bool(c))

    def And(self, *cs):
        if self.mode == 'sym':
            return SymBool(z3.And(*[self._e(c) for c in cs]))
        return all(bool(c) for c in cs)

    def Or(self, *cs):
        if self.mode == 'sym':
            return SymBool(z3.Or(*[self._e(c) for c in cs]))
        return any(bool(c) for c in cs)

    def Not(self, c):
        if self.mode == 'sym':
            return SymBool(z3.Not(self._e(c)))
        return not bool(c)

    def Implies(self, a, b):
        if self.mode == 'sym':
            return SymBool(z3.Implies(self._e(a), self._e(b)))
        return (not bool(a)) or bool(b)

    def eq(self, a, b):
        """Equality usable as a hypothesis in both modes."""
        if self.mode == 'sym':
            return SymBool(tosym(a).a == tosym(b).a)
        a, b = float(a), float(b)
        return abs(a - b) <= 1e-9 * max(1.0, abs(a), abs(b))

    # ---- obligations ----------------------------------------------------------------------------
    def _rec(self, key, kind, v, expect):
        ok = (v.verdict == expect)
        rec = dict(key=key, kind=kind, path=self.path, expect=expect, ok=ok, **v.as_dict())
        if v.verdict == 'sat' and expect == 'unsat':
            rec['env'] = {k: str(x) for k, x in (v.env or {}).items()}
        self.records.append(rec)
        self.solver_time += v.time
        if v.smt2 and len(self.smt2) < 2:
            self.smt2.append((v.smt2, v.verdict))
        return ok

    def zero(self, key, x, scale=1.0, hyps=(), approx=None):
        """Obligation: every entry of x is identically zero.  approx=(box constraints, tol): when the exact identity is
        refuted (code constants such as sqrt(3) are rounded), fall back to |x| <= tol on the box (few variables only)."""
        if self.mode == 'sym':
            allok = True
            items = list(flat_syms(x)) if isinstance(x, np.ndarray) else [((), tosym(x))]
            for idx, s in items:
                k = key + (str(list(idx)) if idx != () else '')
                v = smt.decide_zero(s, self.ex, self.ladder, extra_hyps=[self._e(c) for c in hyps],
                                    want_smt2=len(self.smt2) < 2)
                if v.verdict == 'sat' and approx is not None:
                    t1 = v.time
                    v = smt.decide_within(s, self.ex, [self._e(c) for c in approx[0]], approx[1], self.ladder)
                    v.time += t1
                allok &= self._rec(k, 'zero', v, 'unsat')
            return allok
        if hyps and not all(bool(c) for c in hyps):
            self.assumption_failed = True
            return True
        xa = np.abs(np.asarray(x, dtype=float))
        bad = False
        if xa.ndim == 0:
            if not (float(xa) <= FLOAT_TOL * max(scale, 1e-300)):
                self.failed_keys.append((key, float(xa)))
                bad = True
        else:
            for idx in np.ndindex(*xa.shape):
                if not (xa[idx] <= FLOAT_TOL * max(scale, 1e-300)):
                    self.failed_keys.append((key + str(list(idx)), float(xa[idx])))
                    bad = True
        return not bad

    def equal(self, key, a, b, scale=None, approx=None):
        a_ = np.asarray(a) if not isinstance(a, np.ndarray) else a
        b_ = np.asarray(b) if not isinstance(b, np.ndarray) else b
        if a_.shape != b_.shape:
            return self.concrete(key + ':shape', False, 'shapes %s vs %s' % (a_.shape, b_.shape))
        if self.mode == 'float' and scale is None:
            scale = max(1.0, float(np.max(np.abs(np.asarray(b_, dtype=float)))) if b_.size else 1.0)
        return self.zero(key, a_ - b_, scale=scale or 1.0, approx=approx)

    def valid(self, key, c, kinds=('default', 'nlsat')):
        """Obligation: condition c holds for all values on this path."""
        if self.mode == 'sym':
            v = smt.decide_valid(self._e(c), self.ex, self.ladder, kinds=kinds)
            return self._rec(key, 'valid', v, 'unsat')
        if not bool(c):
            self.failed_keys.append((key, 1.0))
            return False
        return True

    def exists(self, key, c, use_pc=True):
        """Existential obligation (minimality / reachability): c must be satisfiable."""
        if self.mode == 'sym':
            v = smt.decide_sat(self._e(c), self.ex, self.ladder, use_pc=use_pc)
            return self._rec(key, 'exists', v, 'sat')
        return True

    def nonzero_somewhere(self, key, x):
        """Existential obligation: the Sym x is not identically zero."""
        if self.mode == 'sym':
            v = smt.decide_zero(tosym(x), None, self.ladder)
            return self._rec(key, 'exists', v, 'sat')
        return True

    def canary(self, key, x):
        """A deliberately false variant of a goal: must come back `sat` or the harness lost its teeth."""
        if self.mode == 'sym':
            items = list(flat_syms(x)) if isinstance(x, np.ndarray) else [((), tosym(x))]
            got = False
            t = 0.0
            verdicts = []
            # a false identity only needs ONE point where it fails: first a ground instance at a witness of the current path (exact
            # rational evaluation, decided without the solver), then the solver
            env = None
            try:
                env = self.ex.witness_env() if (self.ex is not None and not self.ex.rootvars) else None
            except Exception:   # noqa
                env = None
            if env is not None:
                from . import zeval
                for idx, s in items:
                    try:
                        r = s.c if s.c is not None else zeval.eval_exact(s.a, env)
                    except Exception:   # noqa
                        continue
                    if r != 0:
                        got = True
                        break
            if not got:
                for idx, s in items:
                    v = smt.decide_zero(s, None, self.ladder[:2])
                    t += v.time
                    verdicts.append(v.verdict)
                    if v.verdict == 'sat':
                        got = True
                        break
            # all `unsat` = the false variant was PROVEN (harness error); a time-out is inconclusive, not a proof
            vv = smt.Verdict('sat' if got else ('unsat' if verdicts and all(x_ == 'unsat' for x_ in verdicts) else 'unknown'), 'canary', t)
            return self._rec(key, 'canary', vv, 'sat')
        return True

    def concrete(self, key, cond, detail=''):
        """Concrete side condition read off in the same run (not a solver obligation)."""
        ok = bool(cond)
        if self.mode == 'sym':
            self.records.append(dict(key=key, kind='concrete', path=self.path, expect='true', ok=ok,
                                     verdict='true' if ok else 'false', member='concrete', time=0.0,
                                     stage='concrete', detail=detail, env=self.path_env() if not ok else None))
        elif not ok:
            self.failed_keys.append((key, 1.0))
        return ok

    def path_env(self):
        """A concrete point on the CURRENT path (so that the replay takes the same branches), {} = nominal values."""
        try:
            env = self.ex.witness_env() if self.ex is not None else None
        except Exception:   # noqa
            env = None
        if env is None and self.ex is not None and (self.ex.pc or self.ex.assume_list):
            # no sampled witness (typically a path through an EQUALITY, e.g. a tie between two edge lengths): ask the solver for a
            # point on the path; variables the model leaves free keep their nominal values
            try:
                fs = list(self.ex.assume_list) + list(self.ex.pc) + list(self.ex.hyps_a())
                v = smt.run_members([('path-model-nlsat', 'nlsat', fs), ('path-model-default', 'default', fs)], (3000, 15000))
                if v.verdict == 'sat' and v.env:
                    env = {k: v.env.get(k, Fr(float(n_))) for k, n_ in self.ex.vars.items()}
            except Exception:   # noqa
                env = None
        return {k: str(x) for k, x in env.items()} if env else {}

    def sample(self, obj):
        if len(self.samples) < 3 and self.path == 0:
            self.samples.append(obj)

    def note(self, s):
        if s not in self.notes:
            self.notes.append(s)

    def stub(self, name):
        self.stubs.add(name)


# ------------------------------------------------------------------------------------------------
# running one configuration (in a forked child, or in the replay subprocess)
# ------------------------------------------------------------------------------------------------
class _Profiler:
    def __init__(self):
        self.seen = set()
        self.root = REPO.rstrip('/') + '/skfem'

    def __call__(self, frame, event, arg):
        if event == 'call':
            co = frame.f_code
            fn = co.co_filename
            if fn.startswith(self.root):
                self.seen.add(fn[len(self.root) + 1:-3].replace('/', '.') + ':' + getattr(co, 'co_qualname', co.co_name))


def run_config_sym(name, fn, kw, tier, seed, opts):
    from . import symnp
    h = H('sym', tier, seed)
    ex = Explorer(seed=seed, maxpaths=opts.get('maxpaths', 256 if tier == 'quick' else 4096),
                  scale=opts.get('scale', 1.0), feas_ms=opts.get('feas_ms', (3000, 20000)),
                  follow_nominal=opts.get('follow_nominal', False),
                  # stop opening new paths at 60 % of the configuration's timeout (the last path still has to finish)
                  time_budget=opts.get('budget', 0.6 * opts['timeout'] if opts.get('timeout') else None))
    h.ex = ex
    prof = _Profiler()
    t0 = time.time()
    res = dict(name=name, status='ok')
    if not opts.get('no_proxy'):
        import skfem  # noqa: F401  (all modules imported before their `np` is replaced)
        symnp.install()
        from . import stubs_misc
        for st in stubs_misc.install_all():
            h.stub(st)
    Ctx.snap = opts.get('snap', True)

    def body(ex_):
        h.stubs_before = None
        out = fn(h, **kw)
        h.path += 1
        return out
    try:
        sys.setprofile(prof)
        try:
            ex.run(body)
        finally:
            sys.setprofile(None)
    except Skip as e:
        res['status'] = 'skipped'
        res['reason'] = str(e)
    except Exception as e:
        res['status'] = 'error'
        res['error'] = '%s: %s' % (type(e).__name__, e)
        res['error_type'] = type(e).__name__
        tb = traceback.extract_tb(e.__traceback__)
        res['error_in_repo'] = any(fr.filename.startswith(REPO) for fr in tb)
        res['traceback'] = ''.join(traceback.format_exception(type(e), e, e.__traceback__))[-3000:]
        res['error_env'] = h.path_env()      # a point on the path that raised
    if res['status'] == 'ok' and ex.stats.get('paths', 0) == 0:
        res['status'] = 'error'
        res['error'] = 'no feasible path: the assumptions are unsatisfiable or every path was abandoned'
        res['error_type'] = 'NoFeasiblePath'
        res['error_in_repo'] = False
        res['traceback'] = ''
    res.update(records=h.records, stats=ex.stats, functions=sorted(prof.seen), notes=h.notes,
               samples=h.samples, smt2=h.smt2, stubs=sorted(h.stubs), symvars=h.symvars[:200],
               nsymvars=len(h.symvars), wall=time.time() - t0, solver_time=h.solver_time)
    return res


def run_config_float(name, fn, kw, tier, seed, env):
    h = H('float', tier, seed, env=env)
    res = dict(name=name, status='ok')
    try:
        fn(h, **kw)
    except Skip as e:
        res['status'] = 'skipped'
    except Exception as e:
        res['status'] = 'error'
        res['error'] = '%s: %s' % (type(e).__name__, e)
        res['error_type'] = type(e).__name__
        tb = traceback.extract_tb(e.__traceback__)
        res['error_in_repo'] = any(fr.filename.startswith(REPO) for fr in tb)
        res['traceback'] = ''.join(traceback.format_exception(type(e), e, e.__traceback__))[-3000:]
    res['failed'] = [[k, r] for k, r in h.failed_keys]
    res['assumption_failed'] = h.assumption_failed
    res['notes'] = h.notes
    return res


def _child(conn, name, fn, kw, tier, seed, opts):
    try:
        r = run_config_sym(name, fn, kw, tier, seed, opts)
    except BaseException as e:   # noqa
        r = dict(name=name, status='error', error='%s: %s' % (type(e).__name__, e), error_type=type(e).__name__,
                 error_in_repo=False, traceback=traceback.format_exc()[-3000:], records=[], stats={},
                 functions=[], notes=[], samples=[], smt2=[], stubs=[], symvars=[], nsymvars=0, wall=0.0,
                 solver_time=0.0)
    try:
        conn.send(r)
    finally:
        conn.close()


def run_pool(cfgs, tier, seed, jobs, default_timeout):
    ctx = mp.get_context('fork')
    pending = list(cfgs)[::-1]
    running = []
    results = {}
    while pending or running:
        while pending and len(running) < jobs:
            c = pending.pop()
            pc, cc = ctx.Pipe(duplex=False)
            p = ctx.Process(target=_child, args=(cc, c['name'], c['fn'], c.get('kw', {}), tier, seed, c.get('opts', {})))
            p.start()
            cc.close()
            running.append((c, p, pc, time.time()))
        time.sleep(0.02)
        still = []
        for c, p, pc, t0 in running:
            to = c.get('opts', {}).get('timeout', default_timeout)
            if os.environ.get('VERIF_CFG_TIMEOUT_CAP'):
                to = min(to, float(os.environ['VERIF_CFG_TIMEOUT_CAP']))     # maintenance: sizing runs
            if pc.poll():
                try:
                    results[c['name']] = pc.recv()
                except EOFError:
                    results[c['name']] = dict(name=c['name'], status='crashed', records=[], stats={}, functions=[],
                                              notes=[], samples=[], smt2=[], stubs=[], symvars=[], nsymvars=0,
                                              wall=time.time() - t0, solver_time=0.0)
                p.join()
            elif not p.is_alive():
                results[c['name']] = dict(name=c['name'], status='crashed', records=[], stats={}, functions=[],
                                          notes=[], samples=[], smt2=[], stubs=[], symvars=[], nsymvars=0,
                                          wall=time.time() - t0, solver_time=0.0)
            elif time.time() - t0 > to:
                p.kill()
                p.join()
                results[c['name']] = dict(name=c['name'], status='timeout', records=[], stats={}, functions=[],
                                          notes=[], samples=[], smt2=[], stubs=[], symvars=[], nsymvars=0,
                                          wall=time.time() - t0, solver_time=0.0)
            else:
                still.append((c, p, pc, t0))
            if c['name'] in results and os.environ.get('VERIF_PROGRESS'):
                with open(os.environ['VERIF_PROGRESS'], 'a') as f:
                    f.write('%8.1fs %-8s %s\n' % (time.time() - t0, results[c['name']].get('status'), c['name']))
        running = still
    return results


# ------------------------------------------------------------------------------------------------
# replay in a fresh interpreter
# ------------------------------------------------------------------------------------------------
def replay_subprocess(module, cfgname, env, tier, seed, timeout=600):
    payload = json.dumps(dict(config=cfgname, env=env, tier=tier, seed=seed))
    p = subprocess.run([sys.executable, '-m', module, '--replay-json', '-'], input=payload, text=True,
                       capture_output=True, cwd=VERIF, timeout=timeout,
                       env=dict(os.environ, PYTHONPATH=REPO + os.pathsep + VERIF))
    for line in p.stdout.splitlines()[::-1]:
        if line.startswith('REPLAY-RESULT '):
            return json.loads(line[len('REPLAY-RESULT '):])
    return dict(status='replay-crashed', failed=[], stderr=p.stderr[-2000:])


def _cvc5_worker(conn, texts, ms):
    out = []
    for t_ in texts:
        try:
            out.append(smt.cvc5_check(t_, ms))
        except Exception as e:   # noqa
            out.append('error:%s' % type(e).__name__)
        conn.send(out[-1])
    conn.close()


def _cvc5_batch(texts, ms, hard_s):
    """cvc5 second opinion in a child process with a hard wall-clock cap (cvc5 may overrun tlimit-per)."""
    ctx = mp.get_context('fork')
    pc, cc = ctx.Pipe(duplex=False)
    p = ctx.Process(target=_cvc5_worker, args=(cc, texts, ms))
    p.start()
    cc.close()
    res = []
    t0 = time.time()
    while len(res) < len(texts) and time.time() - t0 < hard_s:
        if pc.poll(0.2):
            try:
                res.append(pc.recv())
            except EOFError:
                break
        elif not p.is_alive():
            break
    if p.is_alive():
        p.kill()
    p.join()
    return res + ['unknown'] * (len(texts) - len(res))


def load_known():
    p = os.path.join(VERIF, 'known_findings.json')
    if not os.path.exists(p):
        return []
    return json.load(open(p)).get('findings', [])


def match_known(known, prop, cfg, key):
    for k in known:
        if k.get('status') != 'known' or k.get('property') != prop:
            continue
        if re.search(k.get('config_regex', '.*'), cfg) and re.search(k.get('key_regex', '.*'), key):
            return k
    return None


# ------------------------------------------------------------------------------------------------
# main
# ------------------------------------------------------------------------------------------------
def main(prop, module, build_configs, meta):
    """meta: dict(explanation, assumptions, bounds, outside, stubs, design_ref)."""
    import argparse
    ap = argparse.ArgumentParser()
    ap.add_argument('tier', nargs='?', default=os.environ.get('VERIF_TIER', 'quick'))
    ap.add_argument('--replay', default=None)
    ap.add_argument('--replay-json', default=None)
    ap.add_argument('--only', default=None, help='glob on configuration names')
    ap.add_argument('--jobs', type=int, default=int(os.environ.get('VERIF_JOBS', '16')))
    ap.add_argument('--list', action='store_true')
    ap.add_argument('--inline', action='store_true', help='run configurations in-process (debugging)')
    ap.add_argument('--no-evidence', action='store_true')
    ap.add_argument('--float-selftest', action='store_true',
                    help='maintenance: run every configuration in replay (float) mode at its nominal values; on a tree where the '
                         'property holds every obligation must pass (validates the replay side of the harness)')
    a = ap.parse_args()
    seed = int(os.environ.get('VERIF_SEED', '0'))
    tier = a.tier if a.tier in ('quick', 'thorough') else 'quick'

    if a.replay_json or a.replay:
        if a.replay_json == '-':
            payload = json.load(sys.stdin)
        else:
            payload = json.load(open(a.replay_json or a.replay))
        cfgs = {c['name']: c for c in build_configs(payload.get('tier', tier), payload.get('seed', seed))}
        c = cfgs.get(payload['config'])
        if c is None:
            print('REPLAY-RESULT ' + json.dumps(dict(status='no-such-config', failed=[])))
            return 2
        r = run_config_float(c['name'], c['fn'], c.get('kw', {}), tier, seed, payload.get('env', {}))
        print('REPLAY-RESULT ' + json.dumps(r))
        if a.replay:
            bad = [f for f in r.get('failed', []) if f[0] == payload.get('key') or not payload.get('key')]
            if r['status'] == 'error':
                print('replay: library raised %s' % r.get('error'))
                print(r.get('traceback', ''))
            for k, resid in r.get('failed', []):
                print('replay: obligation %s fails on the real float code, residual %.3e' % (k, resid))
            return 1 if (bad or r['status'] == 'error') else 0
        return 0

    t0 = time.time()
    cfgs = build_configs(tier, seed)
    if a.only:
        cfgs = [c for c in cfgs if fnmatch.fnmatch(c['name'], a.only)]
    if a.list:
        for c in cfgs:
            print(c['name'])
        return 0
    names = [c['name'] for c in cfgs]
    assert len(set(names)) == len(names), 'duplicate configuration names'
    # global per-configuration cap (sizing of the thorough tier: 25 min; a multi-path configuration stops opening new paths at 60 %
    # of its timeout and reports what it covered, a single-path one that is still running is killed and listed as inconclusive)
    cap = float(os.environ.get('VERIF_CFG_TIMEOUT_CAP', 1500 if tier == 'thorough' else 10 ** 9))
    for c in cfgs:
        o = c.setdefault('opts', {})
        o['timeout'] = min(o.get('timeout', meta.get('config_timeout', {}).get(tier, 240 if tier == 'quick' else 1500)), cap)
    if a.float_selftest:
        from concurrent.futures import ProcessPoolExecutor
        bad = 0
        with ProcessPoolExecutor(max_workers=a.jobs, mp_context=mp.get_context('fork')) as ex:
            futs = [(c['name'], ex.submit(run_config_float, c['name'], c['fn'], c.get('kw', {}), tier, seed, {})) for c in cfgs]
            for name, f in futs:
                try:
                    r = f.result(timeout=1800)
                except Exception as e:   # noqa
                    r = dict(status='error', error=repr(e), failed=[])
                if r['status'] == 'error' or r['failed']:
                    bad += 1
                    print('FLOAT-SELFTEST %s: %s %s %s' % (name, r['status'], r.get('error', ''), r['failed'][:3]))
        print('float selftest: %d configurations, %d with failures' % (len(cfgs), bad))
        return 0 if bad == 0 else 2
    default_timeout = meta.get('config_timeout', {}).get(tier, 240 if tier == 'quick' else 1500)
    if a.inline:
        results = {c['name']: run_config_sym(c['name'], c['fn'], c.get('kw', {}), tier, seed, c.get('opts', {})) for c in cfgs}
    else:
        results = run_pool(cfgs, tier, seed, a.jobs, default_timeout)

    known = load_known()
    violations, known_hits, harness_errors, inconclusive = [], [], [], []
    cand = []
    n_obl = n_dis = n_exist = n_canary = n_trivial = n_concrete = 0
    members = {}
    solver_time = 0.0
    functions = set()
    stubs = set(meta.get('stubs', []))
    stats_tot = {}
    samples = []
    smt2s = []
    distinct = set()
    statuses = {}
    for c in cfgs:
        r = results[c['name']]
        statuses[r['status']] = statuses.get(r['status'], 0) + 1
        functions.update(r.get('functions', []))
        stubs.update(r.get('stubs', []))
        solver_time += r.get('solver_time', 0.0)
        for k, v in r.get('stats', {}).items():
            if isinstance(v, bool):
                stats_tot[k] = stats_tot.get(k, 0) + int(v)
            elif isinstance(v, (int, float)):
                stats_tot[k] = stats_tot.get(k, 0) + v
        for s in r.get('samples', []):
            if len(samples) < 6:
                samples.append(dict(configuration=c['name'], case=s))
        smt2s.extend(r.get('smt2', []))
        if r['status'] in ('timeout', 'crashed'):
            inconclusive.append(dict(configuration=c['name'], reason=r['status']))
        if r.get('stats', {}).get('bound_hit'):
            inconclusive.append(dict(configuration=c['name'], reason='path / time bound reached after %d paths, %s prefixes left unexplored'
                                     % (r['stats'].get('paths', 0), r['stats'].get('paths_left_on_the_stack', '?'))))
        if r['status'] == 'error':
            cand.append(dict(cfg=c, key='exception:' + r.get('error_type', '?'), env=r.get('error_env') or {}, kind='exception', res=r))
        seen_sat = set()
        for rec in r.get('records', []):
            if rec['kind'] == 'concrete':
                n_concrete += 1
                if not rec['ok']:
                    cand.append(dict(cfg=c, key=rec['key'], env=rec.get('env') or {}, kind='concrete', res=r))
                continue
            n_obl += 1
            members[rec.get('member')] = members.get(rec.get('member'), 0) + 1
            if rec.get('stage') == 'constant':
                n_trivial += 1
            else:
                distinct.add((c['name'], rec['key']))
            if rec['ok']:
                n_dis += 1
                if rec['kind'] == 'exists':
                    n_exist += 1
                if rec['kind'] == 'canary':
                    n_canary += 1
            elif rec['verdict'] == 'unknown':
                inconclusive.append(dict(configuration=c['name'], key=rec['key'], reason='solver unknown'))
            elif rec['kind'] == 'canary':
                harness_errors.append('canary %s/%s was proven: harness lost its teeth' % (c['name'], rec['key']))
            elif rec['kind'] == 'exists':
                # an existential goal refuted: violation candidate without a model; replay at nominal values
                if (rec['key'],) not in seen_sat:
                    cand.append(dict(cfg=c, key=rec['key'], env={}, kind='exists-refuted', res=r))
                    seen_sat.add((rec['key'],))
            else:
                if (rec['key'],) not in seen_sat and len(seen_sat) < 6:
                    cand.append(dict(cfg=c, key=rec['key'], env=rec.get('env') or {}, kind=rec['kind'], res=r))
                    seen_sat.add((rec['key'],))

    # ---- replay candidates against the real float code ------------------------------------------
    os.makedirs(os.path.join(VERIF, 'evidence', 'replays'), exist_ok=True)
    nrep = 0
    per_cfg = {}
    skipped_candidates = 0
    for cd in cand:
        c = cd['cfg']
        per_cfg[c['name']] = per_cfg.get(c['name'], 0) + 1
        if per_cfg[c['name']] > 4 or len(violations) + len(known_hits) > 40:
            skipped_candidates += 1
            continue
        kf = match_known(known, prop, c['name'], cd['key'])
        if cd['kind'] == 'exists-refuted':
            # cannot be replayed numerically (it is a universal statement); reported as a violation of the
            # existential obligation with the configuration as the witness
            confirmed, detail = True, 'existential obligation refuted by the solver'
        else:
            try:
                rr = replay_subprocess(module, c['name'], cd['env'], tier, seed)
            except subprocess.TimeoutExpired:
                rr = dict(status='replay-timeout', failed=[])
            fk = {k: v for k, v in rr.get('failed', [])}
            if cd['kind'] == 'exception':
                confirmed = rr.get('status') == 'error' and rr.get('error_type') == cd['res'].get('error_type') \
                    and rr.get('error_in_repo', False)
                detail = rr.get('error', '')
                if not confirmed and rr.get('status') == 'error' and rr.get('error_in_repo'):
                    confirmed, detail = True, rr.get('error', '')
            else:
                confirmed = cd['key'] in fk or (rr.get('status') == 'error' and rr.get('error_in_repo', False))
                detail = ('residual %.3e' % fk[cd['key']]) if cd['key'] in fk else rr.get('error', '')
                if not confirmed and fk and not rr.get('assumption_failed'):
                    # the float run fails a sibling obligation of the same configuration
                    sib = [k for k in fk if k.split('[')[0] == cd['key'].split('[')[0]]
                    if sib:
                        confirmed, detail = True, 'sibling %s residual %.3e' % (sib[0], fk[sib[0]])
        if confirmed:
            if kf is not None:
                known_hits.append((kf, c['name'], cd['key']))
                continue
            nrep += 1
            path = os.path.join(VERIF, 'evidence', 'replays', '%s-%d.json' % (prop, nrep))
            json.dump(dict(property=prop, module=module, config=c['name'], key=cd['key'], env=cd['env'], tier=tier,
                           seed=seed, detail=detail, how='./run_check.sh %s --replay %s' % (prop, path)),
                      open(path, 'w'), indent=1)
            violations.append((c['name'], cd['key'], path, detail))
        else:
            if cd['kind'] == 'exception':
                harness_errors.append('configuration %s raised under the engine only: %s\n%s' % (
                    c['name'], cd['res'].get('error'), cd['res'].get('traceback', '')))
            else:
                harness_errors.append('NONREPRODUCING counterexample %s/%s (%s)' % (c['name'], cd['key'], rr.get('status')))
                if os.environ.get('VERIF_DEBUG_DIR'):
                    json.dump(dict(property=prop, module=module, config=c['name'], key=cd['key'], env=cd['env'], tier=tier, seed=seed),
                              open(os.path.join(os.environ['VERIF_DEBUG_DIR'], 'nonrepro-%s-%d.json' % (prop, len(harness_errors))), 'w'), indent=1)

    # ---- second-opinion sample with cvc5 -----------------------------------------------------------
    xc = dict(checked=0, agree=0, cvc5_unknown=0, disagree=0, skipped_too_large=0)
    if not os.environ.get('VERIF_NO_CVC5'):
        small = [(t_, v_) for t_, v_ in smt2s if len(t_) < 30000]
        xc['skipped_too_large'] = len(smt2s) - len(small)
        todo = small[:meta.get('cvc5_sample', 8)]
        if todo:
            r5s = _cvc5_batch([t_ for t_, _ in todo], 3000, 20)
            for (text, verdict), r5 in zip(todo, r5s):
                xc['checked'] += 1
                if r5 not in ('sat', 'unsat'):
                    xc['cvc5_unknown'] += 1
                elif r5 == verdict:
                    xc['agree'] += 1
                else:
                    xc['disagree'] += 1
                    harness_errors.append('z3/cvc5 disagree on a sampled query (%s vs %s)' % (verdict, r5))

    wall = time.time() - t0
    seenk = set()
    for kf, cfgn, key in known_hits:
        if id(kf) in seenk:
            continue
        seenk.add(id(kf))
        print('KNOWN-FINDING: property=%s %s (first seen at %s/%s)' % (prop, kf.get('what', ''), cfgn, key))
    for cfgn, key, path, detail in violations:
        print('VIOLATION property=%s replay=%s' % (prop, path))
        print('  configuration=%s obligation=%s %s' % (cfgn, key, detail))
    for e in harness_errors:
        print('HARNESS-ERROR: ' + e)
    if skipped_candidates:
        print('note: %d further failing obligations / configurations were not replayed (at most 4 per configuration, 40 per run)' % skipped_candidates)
    ok_cfgs = statuses.get('ok', 0)
    print('%s %s: %d configurations (%s), %d obligations, %d discharged (%d existential, %d canaries, %d constant), '
          '%d concrete side conditions, %d inconclusive, %d violations, %d known, paths=%d, solver %.1fs, wall %.1fs'
          % (prop, tier, len(cfgs), ', '.join('%s=%d' % kv for kv in sorted(statuses.items())), n_obl, n_dis, n_exist,
             n_canary, n_trivial, n_concrete, len(inconclusive), len(violations), len(known_hits),
             stats_tot.get('paths', 0), solver_time, wall))

    slowest = sorted(((round(results[c['name']].get('wall', 0.0), 1), c['name'], results[c['name']]['status']) for c in cfgs), reverse=True)[:8]
    if os.environ.get('VERIF_VERBOSE'):
        for w_, n_, st_ in slowest:
            print('  slow: %7.1fs %s %s' % (w_, st_, n_))
        for ic in inconclusive[:20]:
            print('  inconclusive: %s' % ic)
    if not a.no_evidence:
        ev = dict(
            property_id=prop, tier=tier, seed=seed, level='other', wall_s=round(wall, 2), violations=len(violations),
            assumptions=meta.get('assumptions', []) + [
                'real arithmetic idealisation: float rounding is outside the claim; counterexamples are replayed in float64 (tolerance 1e-9) before being reported',
                'z3 5.1 decides every obligation (a sample is re-checked with cvc5 1.4); stubs listed under coverage.stubs are trusted to meet the documented contract of what they replace',
            ],
            coverage=dict(
                explanation=meta['explanation'],
                technique='bounded symbolic execution of the real scikit-fem source on z3 terms (object-dtype NumPy arrays) + SMT portfolio; encoding regenerated from /repo on every run',
                obligations=n_obl, discharged=n_dis, inconclusive=len(inconclusive),
                existential_sat_as_expected=n_exist, canaries_sat_as_expected=n_canary, constant_obligations=n_trivial,
                concrete_side_conditions=n_concrete,
                evaluations=n_obl, distinct_nontrivial=len(distinct),
                rule='one evaluation = one solver obligation; distinct = distinct (configuration, obligation key) pairs whose term is not a constant',
                configurations=len(cfgs), configuration_status=statuses, configuration_names=names[:400],
                inconclusive_list=inconclusive[:60], slowest_configurations=slowest,
                functions_encoded=sorted(functions),
                bounds=meta.get('bounds', {}), outside_claim=meta.get('outside', []),
                symbolic_quantities=meta.get('symbolic', ''),
                stubs=sorted(stubs), decided_by=members, solver_time_s=round(solver_time, 2),
                path_exploration={k: (round(v, 2) if isinstance(v, float) else v) for k, v in stats_tot.items()},
                cvc5_crosscheck=xc, known_findings_seen=[kf.get('what') for kf, _, _ in known_hits][:10],
                samples=samples or [dict(note='no sample recorded')], exhaustive=False,
            ))
        os.makedirs(os.path.join(VERIF, 'evidence'), exist_ok=True)
        json.dump(ev, open(os.path.join(VERIF, 'evidence', prop + '.json'), 'w'), indent=1, default=str)

    if violations:
        return 1
    if harness_errors:
        return 2
    if n_dis == 0:
        print('HARNESS-ERROR: no obligation discharged')
        return 2
    return 0
