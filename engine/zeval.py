"""Numeric evaluation of z3 real/bool terms (used for reachability witnesses and for turning models
into replay inputs; never used to decide a goal)."""
import fractions
import numpy as np
import z3

Fr = fractions.Fraction
K = z3


def free_vars(*es):
    seen, out, stack = set(), {}, list(es)
    while stack:
        e = stack.pop()
        i = e.get_id()
        if i in seen:
            continue
        seen.add(i)
        if z3.is_const(e) and e.decl().kind() == z3.Z3_OP_UNINTERPRETED:
            out[e.decl().name()] = e
        else:
            stack.extend(e.children())
    return out


def _walk(e, env, memo, ops):
    """Iterative post-order evaluation; env: name -> value; ops: arithmetic backend."""
    stack = [(e, False)]
    while stack:
        x, done = stack.pop()
        i = x.get_id()
        if i in memo:
            continue
        if not done:
            if z3.is_rational_value(x):
                memo[i] = ops.num(Fr(x.numerator_as_long(), x.denominator_as_long()))
                continue
            if z3.is_algebraic_value(x):
                memo[i] = ops.num(Fr(x.approx(20).numerator_as_long(), x.approx(20).denominator_as_long()))
                continue
            if z3.is_true(x):
                memo[i] = ops.bool(True)
                continue
            if z3.is_false(x):
                memo[i] = ops.bool(False)
                continue
            if z3.is_const(x) and x.decl().kind() == z3.Z3_OP_UNINTERPRETED:
                memo[i] = env[x.decl().name()]
                continue
            stack.append((x, True))
            for c in x.children():
                if c.get_id() not in memo:
                    stack.append((c, False))
        else:
            k = x.decl().kind()
            a = [memo[c.get_id()] for c in x.children()]
            memo[i] = ops.apply(k, a, x)
    return memo[e.get_id()]


class _FloatOps:
    def num(self, f):
        return float(f)

    def bool(self, b):
        return b

    def apply(self, k, a, x):
        if k == z3.Z3_OP_ADD:
            r = a[0]
            for t in a[1:]:
                r = r + t
            return r
        if k == z3.Z3_OP_MUL:
            r = a[0]
            for t in a[1:]:
                r = r * t
            return r
        if k == z3.Z3_OP_SUB:
            r = a[0]
            for t in a[1:]:
                r = r - t
            return r
        if k == z3.Z3_OP_UMINUS:
            return -a[0]
        if k == z3.Z3_OP_DIV:
            with np.errstate(all='ignore'):
                return a[0] / a[1]
        if k == z3.Z3_OP_POWER:
            with np.errstate(all='ignore'):
                return a[0] ** a[1]
        if k == z3.Z3_OP_LT:
            return a[0] < a[1]
        if k == z3.Z3_OP_LE:
            return a[0] <= a[1]
        if k == z3.Z3_OP_GT:
            return a[0] > a[1]
        if k == z3.Z3_OP_GE:
            return a[0] >= a[1]
        if k == z3.Z3_OP_EQ:
            return a[0] == a[1]
        if k == z3.Z3_OP_DISTINCT:
            return a[0] != a[1]
        if k == z3.Z3_OP_NOT:
            return np.logical_not(a[0])
        if k == z3.Z3_OP_AND:
            r = a[0]
            for t in a[1:]:
                r = np.logical_and(r, t)
            return r
        if k == z3.Z3_OP_OR:
            r = a[0]
            for t in a[1:]:
                r = np.logical_or(r, t)
            return r
        if k == z3.Z3_OP_IMPLIES:
            return np.logical_or(np.logical_not(a[0]), a[1])
        if k == z3.Z3_OP_ITE:
            return np.where(a[0], a[1], a[2])
        if k == z3.Z3_OP_TO_REAL:
            return a[0]
        raise NotImplementedError('zeval: op %s' % x.decl())


class _ExactOps(_FloatOps):
    def num(self, f):
        return f

    def apply(self, k, a, x):
        if k == z3.Z3_OP_DIV:
            if a[1] == 0:
                raise ZeroDivisionError
            return Fr(a[0]) / Fr(a[1])
        if k == z3.Z3_OP_POWER:
            if Fr(a[1]).denominator != 1:
                raise NotImplementedError('fractional power in exact evaluation')
            return Fr(a[0]) ** int(a[1])
        if k == z3.Z3_OP_NOT:
            return not a[0]
        if k == z3.Z3_OP_AND:
            return all(a)
        if k == z3.Z3_OP_OR:
            return any(a)
        if k == z3.Z3_OP_IMPLIES:
            return (not a[0]) or a[1]
        if k == z3.Z3_OP_ITE:
            return a[1] if a[0] else a[2]
        return _FloatOps.apply(self, k, a, x)


FLOAT = _FloatOps()
EXACT = _ExactOps()


def eval_float(e, env, memo=None):
    """env values may be numpy arrays (vectorised over sample points)."""
    return _walk(e, env, {} if memo is None else memo, FLOAT)


def eval_exact(e, env, memo=None):
    return _walk(e, env, {} if memo is None else memo, EXACT)


def model_to_env(model, names=None):
    """z3 model -> {name: Fraction}; algebraic values are approximated (20 digits)."""
    env = {}
    for d in model.decls():
        if d.arity() != 0:
            continue
        v = model[d]
        if z3.is_rational_value(v):
            env[d.name()] = Fr(v.numerator_as_long(), v.denominator_as_long())
        elif z3.is_algebraic_value(v):
            a = v.approx(20)
            env[d.name()] = Fr(a.numerator_as_long(), a.denominator_as_long())
    return env
