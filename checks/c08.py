"""C08 - quadrature rules deliver their advertised degree on every reference cell.

Symbolic: the coefficients c_gamma in [-1,1] of an ARBITRARY polynomial of the advertised degree.
Real code: skfem.quadrature.get_quadrature (dispatch, tables, tensor-product construction) is called for
every (reference cell, order) in the stated range; the returned float tables are taken as exact rationals
(no snapping).  Goal per rule and degree k: |sum_q W_q p(X_q) - int p| <= 1e-12 for all p - an LRA query.
"""
import itertools
import math
import sys
from fractions import Fraction as Fr

import numpy as np

from engine import harness

TOL = Fr(1, 10 ** 12)


def _refdoms():
    from skfem.refdom import RefPoint, RefLine, RefTri, RefQuad, RefTet, RefHex, RefWedge
    return dict(point=RefPoint, line=RefLine, tri=RefTri, quad=RefQuad, tet=RefTet, hex=RefHex, wedge=RefWedge)


def monomials(kind, k):
    """Exponent tuples of the monomials of 'degree exactly k' in the sense of the cell."""
    if kind == 'point':
        return [()] if k == 0 else []
    if kind == 'line':
        return [(k,)]
    if kind == 'tri':
        return [(a, k - a) for a in range(k + 1)]
    if kind == 'tet':
        return [(a, b, k - a - b) for a in range(k + 1) for b in range(k + 1 - a)]
    if kind == 'quad':
        return [g for g in itertools.product(range(k + 1), repeat=2) if max(g) == k]
    if kind == 'hex':
        return [g for g in itertools.product(range(k + 1), repeat=3) if max(g) == k]
    if kind == 'wedge':
        # total degree <= k in the triangle factor (x, y), degree <= k along z; 'exactly k' = max of the two
        out = []
        for a in range(k + 1):
            for b in range(k + 1 - a):
                for c in range(k + 1):
                    if max(a + b, c) == k:
                        out.append((a, b, c))
        return out
    raise ValueError(kind)


def exact_integral(kind, g):
    f = math.factorial
    if kind == 'point':
        return Fr(1)
    if kind == 'line':
        return Fr(1, g[0] + 1)
    if kind == 'tri':
        return Fr(f(g[0]) * f(g[1]), f(g[0] + g[1] + 2))
    if kind == 'tet':
        return Fr(f(g[0]) * f(g[1]) * f(g[2]), f(sum(g) + 3))
    if kind in ('quad', 'hex'):
        r = Fr(1)
        for a in g:
            r *= Fr(1, a + 1)
        return r
    if kind == 'wedge':
        return Fr(f(g[0]) * f(g[1]), f(g[0] + g[1] + 2)) * Fr(1, g[2] + 1)


MEASURE = dict(point=Fr(1), line=Fr(1), tri=Fr(1, 2), quad=Fr(1), tet=Fr(1, 6), hex=Fr(1), wedge=Fr(1, 2))


def in_cell(kind, x, eps=1e-14):
    x = np.asarray(x, dtype=float)
    if kind == 'point':
        return True
    if (x < -eps).any():
        return False
    if kind in ('line', 'quad', 'hex'):
        return bool((x <= 1 + eps).all())
    if kind in ('tri', 'tet'):
        return bool(x.sum() <= 1 + eps)
    if kind == 'wedge':
        return bool(x[0] + x[1] <= 1 + eps and x[2] <= 1 + eps)


def rule_config(h, kind, order, before=()):
    from skfem.quadrature import get_quadrature
    refdom = _refdoms()[kind]
    # history: other orders (of this and of the other reference cells that share generators) requested earlier in the same interpreter
    for kb, nb in before:
        try:
            get_quadrature(_refdoms()[kb], nb)
        except NotImplementedError:
            pass
    try:
        # history [request, caller scribbles over what it got, request again]: a rule must not be aliased to earlier results
        X0, W0 = get_quadrature(refdom, order)
        try:
            X0[...] = 7.0
            W0[...] = -3.0
        except ValueError:
            pass   # read-only results are fine too
        X, W = get_quadrature(refdom, order)
    except NotImplementedError:
        # the library declines this order: that is the documented behaviour for orders outside the tables
        h.concrete('declined', True, 'NotImplementedError')
        h.sample(dict(cell=kind, order=order, outcome='NotImplementedError'))
        return
    deg = max(order, 0)
    X = np.asarray(X, dtype=float)
    W = np.asarray(W, dtype=float)
    h.concrete('shape', X.shape == (refdom.dim() if kind != 'point' else 0, W.shape[0]), str(X.shape))
    nq = W.shape[0]
    Xf = [[Fr(float(X[i, q])) for i in range(X.shape[0])] for q in range(nq)]
    Wf = [Fr(float(w)) for w in W]
    h.concrete('nodes-in-closed-cell', all(in_cell(kind, X[:, q]) for q in range(nq)),
               'a node lies outside the reference cell')
    h.concrete('weights-sum-to-measure', abs(sum(Wf) - MEASURE[kind]) <= Fr(1, 10 ** 13),
               'sum(W)=%s measure=%s' % (float(sum(Wf)), float(MEASURE[kind])))
    # powers table
    pw = [[[Fr(1)] for _ in range(X.shape[0])] for q in range(nq)]
    for q in range(nq):
        for i in range(X.shape[0]):
            for _ in range(deg):
                pw[q][i].append(pw[q][i][-1] * Xf[q][i])
    h.sample(dict(cell=kind, order=order, points=nq, advertised_degree=deg))
    for k in range(deg + 1):
        gs = monomials(kind, k)
        if not gs:
            continue
        c = h.sym('c%d' % k, (len(gs),), nominal=np.ones(len(gs)))
        r = 0
        scale = 0.0
        for j, g in enumerate(gs):
            e = -exact_integral(kind, g)
            for q in range(nq):
                t = Wf[q]
                for i, a in enumerate(g):
                    t = t * pw[q][i][a]
                e += t
            if h.sym_mode:
                h.assume(h.And(c[j] >= -1, c[j] <= 1))
                r = r + c[j] * h.frac(e)
            else:
                cj = min(1.0, max(-1.0, float(c[j])))
                r = r + cj * float(e)
        h.valid('degree=%d' % k, h.And(r <= h.frac(TOL), r >= -h.frac(TOL)), kinds=('default',))


def crosshair_config(h):
    """Order dispatch with a SYMBOLIC order (CrossHair + z3): either NotImplementedError or a rule of at least the requested degree."""
    import os
    import re
    import subprocess
    t_ = h.sym('t', ())
    h.zero('trivial', t_ - t_)
    here = os.path.dirname(os.path.dirname(os.path.abspath(__file__)))
    if h.sym_mode:
        env = dict(os.environ, PYTHONPATH=harness.REPO + os.pathsep + here)
        try:
            p = subprocess.run([sys.executable, '-m', 'crosshair', 'check', '--report_all', '--per_condition_timeout', '150',
                                os.path.join(here, 'checks', 'crosshair', 'c08_orders.py')], capture_output=True, text=True, env=env, cwd=here, timeout=500)
            out = p.stdout + p.stderr
        except Exception as e:       # crosshair not installed / timeout: inconclusive, not an alarm
            h.note('CrossHair run failed: %s' % e)
            return
        h.sample(dict(crosshair_output=out.strip().splitlines()[-4:]))
        confirmed = len(re.findall('Confirmed over all paths', out))
        refuted = [l for l in out.splitlines() if 'error:' in l and 'false when calling' in l]
        h.stub('CrossHair 0.0.110 explores get_quadrature_tri/tet with a symbolic order; the degree of the concrete table on each path is computed untraced')
        if refuted:
            h.concrete('order dispatch: raises or returns a rule of at least the requested degree', False, refuted[0][-200:])
        elif confirmed == 2:
            h.concrete('order dispatch: raises or returns a rule of at least the requested degree', True, 'Confirmed over all paths (tri: -4..40, tet: -4..24)')
        else:
            h.note('CrossHair: not confirmed within the budget (inconclusive)')
    else:
        from checks.crosshair.c08_orders import tri_dispatch, tet_dispatch
        bad = [('tri', n) for n in range(-4, 41) if not (tri_dispatch(n) == -1 or tri_dispatch(n) >= n)] + \
              [('tet', n) for n in range(-4, 25) if not (tet_dispatch(n) == -1 or tet_dispatch(n) >= n)]
        if bad:
            h.failed_keys.append(('order dispatch: raises or returns a rule of at least the requested degree', float(len(bad))))


def build_configs(tier, seed):
    quick = tier == 'quick'
    rng = dict(
        point=range(0, 3),
        line=range(-2, 21 if quick else 41),
        tri=range(-2, 26),
        tet=range(-2, 14),
        quad=range(-1, 9 if quick else 17),
        hex=range(-1, 7 if quick else 13),
        wedge=range(-1, 7 if quick else 13),
    )
    cfgs = []
    for kind, r in rng.items():
        for n in r:
            cfgs.append(dict(name='%s/order=%d' % (kind, n), fn=rule_config, kw=dict(kind=kind, order=n),
                             opts=dict(snap=False, no_proxy=True)))
    # histories: the rule for an order must not depend on which orders were requested before it (neighbouring orders share Gauss rules)
    hist = dict(line=range(1, 11), quad=range(1, 7), hex=range(1, 5), wedge=range(1, 5), tri=range(1, 9), tet=range(1, 5))
    for kind, r in hist.items():
        for n in r:
            for other in (n - 1, n + 1):
                if quick and kind in ('hex', 'wedge', 'tet') and other > n:
                    continue
                cfgs.append(dict(name='history/%s/order=%d-after-%d' % (kind, n, other), fn=rule_config,
                                 kw=dict(kind=kind, order=n, before=((kind, other),)), opts=dict(snap=False, no_proxy=True)))
    cfgs.append(dict(name='history/quad/order=4-after-line-3', fn=rule_config, kw=dict(kind='quad', order=4, before=(('line', 3),)),
                     opts=dict(snap=False, no_proxy=True)))
    cfgs.append(dict(name='history/line/order=6-after-ascending', fn=rule_config, kw=dict(kind='line', order=6, before=tuple(('line', k) for k in range(0, 6))),
                     opts=dict(snap=False, no_proxy=True)))
    cfgs.append(dict(name='history/line/order=6-after-descending', fn=rule_config, kw=dict(kind='line', order=6, before=tuple(('line', k) for k in range(12, 6, -1))),
                     opts=dict(snap=False, no_proxy=True)))
    cfgs.append(dict(name='crosshair/order-dispatch', fn=crosshair_config, kw={}, opts=dict(snap=False, no_proxy=True, timeout=600)))
    return cfgs


META = dict(
    explanation='For every (reference cell, order) in the stated range the real get_quadrature is called; its float '
                'tables are lifted to exact rationals and, for every degree k up to the advertised one, z3 (LRA) decides '
                'that |Q(p) - I(p)| <= 1e-12 for ALL polynomials p of that degree with coefficients in [-1,1] (unsat of the '
                'negation), against exact rational reference integrals.  Orders the library declines must raise '
                'NotImplementedError.  Weight sums and node containment are read off concretely.',
    symbolic='coefficients of an arbitrary polynomial per degree',
    bounds=dict(orders='line -2..20 (thorough ..40), tri -2..25, tet -2..13, quad -1..8 (16), hex/wedge -1..6 (12), point 0..2',
                tolerance='1e-12 on coefficient box [-1,1]'),
    outside=['orders beyond the stated ranges (the line/tensor generators accept any order)', 'float rounding of the summation'],
    assumptions=['table floats are taken at their exact binary value'],
    design_ref='DESIGN.md 4/C08',
)

if __name__ == '__main__':
    sys.exit(harness.main('C08', 'checks.c08', build_configs, META))
