#!/bin/bash
# Build the overlay venv the checks run in: /venv's interpreter and packages (what the test-suite
# uses) + z3-solver, cvc5, crosshair-tool from the offline wheelhouse. Idempotent. Offline.
set -e
HERE="$(cd "$(dirname "$0")" && pwd)"
V="$HERE/.venv"
if [ -x "$V/bin/python" ] && "$V/bin/python" -c "import z3, numpy, scipy" 2>/dev/null; then
  exit 0
fi
LOCK="$HERE/.venv.lock"
exec 9>"$LOCK"
flock 9
if [ -x "$V/bin/python" ] && "$V/bin/python" -c "import z3, numpy, scipy" 2>/dev/null; then
  exit 0
fi
rm -rf "$V"
/venv/bin/python -m venv "$V"
SP="$("$V/bin/python" -c 'import site; print(site.getsitepackages()[0])')"
echo "import site; site.addsitedir('/venv/lib/python3.12/site-packages')" > "$SP/_verif_overlay.pth"
PIP_NO_INDEX=1 "$V/bin/python" -m pip install -q --no-index --find-links /opt/veriftools/wheels z3-solver cvc5 crosshair-tool jsonschema >/dev/null 2>&1 || \
PIP_NO_INDEX=1 "$V/bin/python" -m pip install -q --no-index --find-links /opt/veriftools/wheels z3-solver cvc5 jsonschema
"$V/bin/python" -c "import z3, numpy, scipy; print('verif venv ok: z3', z3.get_version_string(), 'numpy', numpy.__version__)"
