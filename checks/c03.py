"""C03 - discrete functions are globally continuous in the sense of the element.

Symbolic: all vertex coordinates (G2; tets one free vertex in quick), the coefficient vector x, the point s on the interior facet.
Real code: Mesh.__post_init__ (sort_t), build_entities, Dofs, ElementHdiv/Hcurl.orient, every lbasis/gbasis,
InteriorFacetBasis/FacetBasis (simplices; the two one-sided traces are produced by the library at the SAME symbolic point),
and for quadrilaterals/hexahedra (whose facet bases need the Newton inverse) gbasis + element_dofs at harness-built reference points
on either side after the solver has confirmed that both map to the same physical point.
Goal: jump of value (H1) / of u.n~ (H(div)) / of the tangential part (H(curl)) across every interior facet is identically zero.
"""
import itertools
import sys
import warnings

import numpy as np

from engine import harness
from engine.harness import Skip
from engine.sym import Sym, tosym
from engine.zoo import make_mesh, topo, ref_weights, own_det_at
from checks.c09 import make_elem, family


def renumbered(name, perm):
    cname, p, t = topo(name)
    perm = np.asarray(perm)
    p2 = np.zeros_like(p)
    p2[:, perm] = p
    return cname, p2, perm[t]


def shifted(name, shifts):
    cname, p, t = topo(name)
    t2 = t.copy()
    for k, r in enumerate(shifts):
        t2[:, k] = np.roll(t[:, k], r)
    return cname, p, t2


HEX_ROT = None


def hex_rotations():
    """The 24 orientation-preserving symmetries of the reference hexahedron as permutations of its local vertices."""
    global HEX_ROT
    if HEX_ROT is not None:
        return HEX_ROT
    from skfem.refdom import RefHex
    R = np.asarray(RefHex.p, dtype=float).T      # 8 x 3
    out = []
    for perm in itertools.permutations(range(3)):
        for signs in itertools.product([1, -1], repeat=3):
            M = np.zeros((3, 3))
            for i in range(3):
                M[i, perm[i]] = signs[i]
            if round(np.linalg.det(M)) != 1:
                continue
            Q = (R - 0.5) @ M.T + 0.5
            idx = [int(np.argmin(np.abs(R - q).sum(axis=1))) for q in Q]
            out.append(idx)
    HEX_ROT = out
    return out


def facet_geometry(h, m, f, s):
    """Own parametrisation of facet f: point, tangents, unnormalised normal."""
    P = m.doflocs
    dim = P.shape[0]
    fac = np.asarray(m.facets)
    bdim = dim - 1
    nfv = m.brefdom.nnodes if bdim > 0 else 1

    def w(sv):
        return ref_weights(m.brefdom, sv) if bdim > 0 else [1]
    sv = [s[j, 0] for j in range(bdim)]
    lam = w(sv)
    x = [sum(lam[a] * P[d, fac[a, f]] for a in range(nfv)) for d in range(dim)]
    T = []
    for j in range(bdim):
        l1, l0 = w([sv[i] if i != j else 1 for i in range(bdim)]), w([sv[i] if i != j else 0 for i in range(bdim)])
        T.append([sum((l1[a] - l0[a]) * P[d, fac[a, f]] for a in range(nfv)) for d in range(dim)])
    if dim == 1:
        n = [1]
    elif dim == 2:
        n = [T[0][1], -T[0][0]]
    else:
        a, b = T
        n = [a[1] * b[2] - a[2] * b[1], a[2] * b[0] - a[0] * b[2], a[0] * b[1] - a[1] * b[0]]
    return x, T, n, lam


def side_values_direct(h, m, e, mapping, ed, x, f, side, lam):
    """u, grad u of the discrete function on cell f2t[side, f] at the facet point with boundary weights lam, through gbasis at
    the harness-built reference point; also returns the physical point as mapped by the library (for the coincidence check)."""
    fac = np.asarray(m.facets)
    t = np.asarray(m.t)
    K = int(m.f2t[side, f])
    R = np.asarray(m.refdom.p, dtype=float)
    dim = R.shape[0]
    nfv = len(lam)
    loc = [int(np.nonzero(t[:m.refdom.nnodes, K] == fac[a, f])[0][0]) for a in range(nfv)]
    X = np.empty((dim, 1), dtype=object if h.sym_mode else float)
    for d in range(dim):
        X[d, 0] = sum(lam[a] * float(R[d, loc[a]]) for a in range(nfv))
    tind = np.array([K], dtype=np.int32)
    if h.sym_mode and m.refdom.__name__ in ('RefQuad', 'RefHex'):
        # precondition: the cell map is non-degenerate at the facet point
        dd = own_det_at(m, K, [X[d, 0] for d in range(dim)])
        if dd.c is None:
            h.assume(dd != 0)
    xphys = mapping.F(X, tind=tind)[:, 0, 0]
    val, grad = None, None
    for i in range(ed.shape[0]):
        comps = e.gbasis(mapping, X, i, tind=tind)
        c = x[ed[i, K]]
        vs = [np.asarray(cf.value)[..., 0, 0] * c for cf in comps]
        gs = [np.asarray(cf.grad)[..., 0, 0] * c if cf.grad is not None else None for cf in comps]
        val = vs if val is None else [a + b for a, b in zip(val, vs)]
        grad = gs if grad is None else [(a + b) if a is not None else None for a, b in zip(grad, gs)]
    return val, grad, xphys


def jump_obligations(h, tag, fam, dim, v0, v1, T, n, g0=None, g1=None, c1=False, check_value=True, approx=None):
    """Per component field: value / normal / tangential jump == 0."""
    if approx is not None:
        zero0 = h.zero

        class _H:
            def zero(self, key, val, **kw):
                return zero0(key, val, approx=approx, **kw)
        h = _H()
    for c in range(len(v0)):
        a, b = np.asarray(v0[c]), np.asarray(v1[c])
        d = a - b
        kind = fam[c] if isinstance(fam, (list, tuple)) else fam
        if kind == 'h1':
            if check_value:
                h.zero('%s: value jump (component %d)' % (tag, c), d)
        elif kind == 'hdiv':
            h.zero('%s: normal jump (component %d)' % (tag, c), sum(d[k] * n[k] for k in range(dim)))
        elif kind == 'hcurl':
            for j, Tj in enumerate(T):
                h.zero('%s: tangential jump t%d (component %d)' % (tag, j, c), sum(d[k] * Tj[k] for k in range(dim)))
        if c1 and g0 is not None and g0[c] is not None:
            h.zero('%s: gradient jump (component %d)' % (tag, c), np.asarray(g0[c]) - np.asarray(g1[c]))


def comp_families(e):
    import skfem.element as E
    if isinstance(e, E.ElementComposite):
        return [f for el in e.elems for f in comp_families(el)]
    if isinstance(e, E.ElementVector):
        return ['h1']          # one vector-valued field: every Cartesian component continuous
    if isinstance(e, E.ElementDG) or (e.nodal_dofs == 0 and e.facet_dofs == 0 and e.edge_dofs == 0):
        return ['dg']          # cell-interior DOFs only: no continuity claimed
    f = family(e)
    return [{'h1': 'h1', 'global': 'h1', 'hdiv': 'hdiv', 'hcurl': 'hcurl', 'matrix': 'hdiv'}.get(f, 'h1')]


def trace_config(h, mesh, spec, pt=None, free=None, via='ifb', point='sym', c1=False, reuse_from=None, adaptive=None, sort_t=None,
                 what='jump'):
    import skfem as S
    with warnings.catch_warnings():
        warnings.simplefilter('ignore')
        e = make_elem(spec)
        if reuse_from is not None:
            # history: the SAME element object was used on another mesh of equal size before
            m_prev = make_mesh(h, mesh, var='q', pt=reuse_from, free='none')
            S.InteriorFacetBasis(m_prev, e, side=0)
            S.InteriorFacetBasis(m_prev, e, side=1)
        kw = {} if sort_t is None else dict(sort_t=sort_t)
        m = make_mesh(h, mesh, pt=pt, free=free, **kw)
        if adaptive is not None:
            m = m.refined(np.array(adaptive))
        dim = m.p.shape[0]
        bdim = dim - 1
        fams = comp_families(e)
        f2t = np.asarray(m.f2t)
        # the entity tables the orientation rests on: one facet column per distinct local facet of the cells, neighbours contain it
        if dim > 1:
            tv = np.asarray(m.t)[:m.refdom.nnodes]
            fac_t = np.asarray(m.facets)
            own = {}
            for K in range(tv.shape[1]):
                for lf in np.asarray(m.refdom.facets):
                    own.setdefault(tuple(sorted(int(tv[a, K]) for a in lf)), []).append(K)
            listed = [tuple(sorted(int(v) for v in fac_t[:, f])) for f in range(fac_t.shape[1])]
            ok_tab = sorted(listed) == sorted(own) and len(set(listed)) == len(listed)
            ok_nb = ok_tab and all(sorted(int(K) for K in f2t[:, f] if K != -1) == sorted(own[listed[f]]) for f in range(fac_t.shape[1]))
            h.concrete('facet table lists every distinct facet of the cells exactly once', ok_tab, '%d listed, %d distinct' % (len(listed), len(own)))
            h.concrete('f2t lists exactly the cells containing each facet', ok_nb)
            if not (ok_tab and ok_nb):
                t_ = h.sym('t', ())
                h.zero('trivial', t_ - t_)
                return
        ifac = np.nonzero(f2t[1] != -1)[0]
        if len(ifac) == 0:
            raise Skip('no interior facet')
        if point == 'sym':
            s = h.sym('s', (max(bdim, 0), 1), nominal=np.array([[0.3125], [0.21875]])[:bdim]) if bdim > 0 else np.zeros((0, 1))
            if h.sym_mode and bdim > 0 and via == 'direct':
                for j in range(bdim):
                    h.assume(h.And(s[j, 0] > 0, s[j, 0] < 1))
        elif point == 'mid':
            s = h.const(np.array([[0.5], [0.5]])[:bdim] if m.brefdom.__name__ != 'RefTri' else np.array([[1.0 / 3], [1.0 / 3]]))
            if h.sym_mode:
                s = np.array([[h.frac(1, 2 if m.brefdom.__name__ != 'RefTri' else 3)] for _ in range(bdim)], dtype=object)
        dofs = S.assembly.Dofs(m, e) if False else None
        basis0 = None
        N = None
        h.sample(dict(mesh=mesh, element=spec, cells=np.asarray(m.t).T.tolist(), via=via, point=point, interior_facets=[int(f) for f in ifac]))
        if via == 'ifb':
            W = h.const(np.ones(1))
            ib0 = S.InteriorFacetBasis(m, e, side=0, quadrature=(s, W))
            ib1 = S.InteriorFacetBasis(m, e, side=1, quadrature=(s, W))
            N = ib0.N
            x = h.sym('x', (N,), nominal=(np.arange(N) * 5 % 7) - 2.5)
            u0, u1 = ib0.interpolate(x), ib1.interpolate(x)
            u0 = u0 if isinstance(u0, tuple) else (u0,)
            u1 = u1 if isinstance(u1, tuple) else (u1,)
            h.concrete('both sides enumerate the same facets', np.array_equal(ib0.find, ib1.find) and np.array_equal(np.sort(ib0.find), np.sort(ifac)))
            for k, f in enumerate(ib0.find):
                xg, T, n, lam = facet_geometry(h, m, f, s)
                # the two bases evaluate at the same physical point
                for d in range(dim):
                    h.zero('facet %d: both sides evaluate at the same point [%d]' % (f, d),
                           ib0.global_coordinates().value[d, k, 0] - ib1.global_coordinates().value[d, k, 0])
                v0 = [np.asarray(c.value)[..., k, 0] for c in u0]
                v1 = [np.asarray(c.value)[..., k, 0] for c in u1]
                g0 = [np.asarray(c.grad)[..., k, 0] if c.grad is not None else None for c in u0]
                g1 = [np.asarray(c.grad)[..., k, 0] if c.grad is not None else None for c in u1]
                jump_obligations(h, 'facet %d' % f, fams, dim, v0, v1, T, n, g0, g1, c1=c1)
        else:
            mapping = m._mapping()
            ed = np.asarray(S.CellBasis(m, e, intorder=1).element_dofs) if False else None
            from skfem.assembly import Dofs
            dd = Dofs(m, e)
            ed = np.asarray(dd.element_dofs)
            N = int(dd.N)
            x = h.sym('x', (N,), nominal=(np.arange(N) * 5 % 7) - 2.5)
            ap = None
            if h.sym_mode and ('LinePp' in spec or 'QuadP' in spec):
                # Legendre-based elements carry sqrt() normalisation constants: continuity holds to rounding only
                ap = ([h.And(x[i] >= -1, x[i] <= 1) for i in range(N)], 1e-12)
            for f in ifac:
                xg, T, n, lam = facet_geometry(h, m, f, s)
                v0, g0, x0 = side_values_direct(h, m, e, mapping, ed, x, f, 0, lam)
                v1, g1, x1 = side_values_direct(h, m, e, mapping, ed, x, f, 1, lam)
                for d in range(dim):
                    h.zero('facet %d: side 0 reference point maps to the facet point [%d]' % (f, d), x0[d] - xg[d])
                    h.zero('facet %d: side 1 reference point maps to the facet point [%d]' % (f, d), x1[d] - xg[d])
                jump_obligations(h, 'facet %d' % f, fams, dim, v0, v1, T, n, g0, g1, c1=c1, approx=ap)
        if h.sym_mode and 'dg' not in fams and N is not None and what == 'jump':
            pass


def morley_config(h, spec, pt):
    """Non-conforming C1-type elements on Heronian cells (numeric geometry, exact arithmetic): vertex values single-valued and
    the normal derivative continuous at the facet midpoint (Morley); value+gradient continuous at vertices (Hermite)."""
    import skfem as S
    with warnings.catch_warnings():
        warnings.simplefilter('ignore')
        e = make_elem(spec)
        m = make_mesh(h, 'tri2heron', pt=pt, free='none')
        from skfem.assembly import Dofs
        dd = Dofs(m, e)
        ed = np.asarray(dd.element_dofs)
        N = int(dd.N)
        x = h.sym('x', (N,), nominal=(np.arange(N) * 5 % 7) - 2.5)
        mapping = m._mapping()
        f2t = np.asarray(m.f2t)
        h.sample(dict(element=spec, cells=np.asarray(m.t).T.tolist()))
        for f in np.nonzero(f2t[1] != -1)[0]:
            for name, lamv in (('vertex0', [1, 0]), ('vertex1', [0, 1]), ('midpoint', [h.frac(1, 2), h.frac(1, 2)])):
                xg, T, n, _ = facet_geometry(h, m, f, np.array([[h.frac(1, 2)]], dtype=object if h.sym_mode else float))
                v0, g0, _ = side_values_direct(h, m, e, mapping, ed, x, f, 0, lamv)
                v1, g1, _ = side_values_direct(h, m, e, mapping, ed, x, f, 1, lamv)
                if name != 'midpoint':
                    h.zero('facet %d %s: value jump' % (f, name), np.asarray(v0[0]) - np.asarray(v1[0]))
                    if 'Hermite' in spec:
                        h.zero('facet %d %s: gradient jump' % (f, name), np.asarray(g0[0]) - np.asarray(g1[0]))
                elif 'Morley' in spec:
                    dj = np.asarray(g0[0]) - np.asarray(g1[0])
                    h.zero('facet %d midpoint: normal derivative jump' % f, sum(dj[k] * n[k] for k in range(2)))


# elements per cell type ------------------------------------------------------------------------------------------------------------------
TRI_IFB = ['ElementTriP1', 'ElementTriP2', 'ElementTriP3', 'ElementTriP4', 'ElementTriMini', 'ElementTriCCR', 'ElementTriP2B',
           'ElementTriRT1', 'ElementTriRT2', 'ElementTriBDM1', 'ElementTriN1', 'ElementTriN2',
           'ElementVector(ElementTriP2())', 'ElementComposite(ElementTriRT1(), ElementTriP0())',
           'ElementComposite(ElementVector(ElementTriP2()), ElementTriP1())']
TRI_DIRECT = ['ElementTriN3', 'ElementTriP3', 'ElementTriRT2']
QUAD = ['ElementQuad1', 'ElementQuad2', 'ElementQuadS2', 'ElementQuadP(3)', 'ElementQuadRT1', 'ElementQuadN1']
TET = ['ElementTetP1', 'ElementTetP2', 'ElementTetMini', 'ElementTetCCR', 'ElementTetRT1', 'ElementTetN1']
HEX = ['ElementHex1', 'ElementHexS2', 'ElementHex2', 'ElementHexRT1']


def curved_continuity_config(h, mesh, cls, spec):
    """Curved second-order meshes (vertices AND mid-side nodes symbolic): across the shared curved edge the two cell maps trace the
    same curve and the discrete function of an H1 element takes the same value from both sides, at a symbolic edge parameter."""
    import skfem as S
    from dataclasses import replace
    from skfem.assembly import Dofs
    from checks.c10 import quadratic_weights
    from engine.astdiff import dsym
    from engine.symnp import det_obj
    with warnings.catch_warnings():
        warnings.simplefilter('ignore')
        m1 = make_mesh(h, mesh)
        C = getattr(S, cls)
        M0 = C.from_mesh(m1)
        nv = m1.p.shape[1]
        _, pn, tn = topo(mesh)
        Mf = C.from_mesh(getattr(S, type(m1).__name__)(pn, tn))
        nomv = np.asarray(Mf.doflocs, dtype=float)[:, nv:]
        nomv = nomv + ((np.arange(nomv.size).reshape(nomv.shape) * 7 % 5) - 2) / 64.0
        q = h.sym('q', nomv.shape, nominal=nomv)
        P = np.empty(M0.doflocs.shape, dtype=object if h.sym_mode else float)
        P[:, :nv] = M0.doflocs[:, :nv]
        P[:, nv:] = q
        M = replace(M0, doflocs=P)
        mp = M._mapping()
        em = M.elem()
        edm = np.asarray(M.dofs.element_dofs)
        e = make_elem(spec)
        dd = Dofs(M, e)
        ed = np.asarray(dd.element_dofs)
        N = int(dd.N)
        x = h.sym('x', (N,), nominal=(np.arange(N) * 5 % 7) - 2.5)
        lam = h.sym('lam', (), nominal=0.3125)
        if h.sym_mode:
            h.assume(h.And(lam > 0, lam < 1))
        t = np.asarray(M.t)
        nn = M.refdom.nnodes
        R = np.asarray(M.refdom.p, dtype=float)
        f2t = np.asarray(M.f2t)
        fac = np.asarray(M.facets)
        ifac = [int(f) for f in np.nonzero(f2t[1] != -1)[0]]
        h.sample(dict(mesh=mesh, cls=cls, element=spec, interior_facets=ifac, symbolic_nodes=int(P.shape[1])))
        for f in ifac:
            sides = []
            for side in (0, 1):
                K = int(f2t[side, f])
                loc = [int(np.nonzero(t[:nn, K] == fac[a, f])[0][0]) for a in range(2)]
                X = np.empty((2, 1), dtype=object if h.sym_mode else float)
                for d in range(2):
                    X[d, 0] = (1 - lam) * float(R[d, loc[0]]) + lam * float(R[d, loc[1]])
                if h.sym_mode:
                    # precondition: the curved cell map is non-degenerate at the point (own second-order map from the node table)
                    Xs = [h.sym('X%d_%d_%d' % (f, side, d), (), nominal=0.3) for d in range(2)]
                    w = quadratic_weights(em, Xs)
                    o = [sum(w[a] * P[d, edm[a, K]] for a in range(len(w))) for d in range(2)]
                    J = np.array([[dsym(tosym(o[a]), Xs[b], {}) for b in range(2)] for a in range(2)], dtype=object)
                    import z3
                    dJ = tosym(det_obj(J))
                    sub = [(tosym(Xs[d]).a, tosym(X[d, 0]).a) for d in range(2)]
                    h.assume(Sym(z3.substitute(dJ.a, *sub)) != 0)
                tind = np.array([K], dtype=np.int32)
                xphys = mp.F(X, tind=tind)[:, 0, 0]
                val = 0
                for i in range(ed.shape[0]):
                    val = val + x[ed[i, K]] * np.asarray(e.gbasis(mp, X, i, tind=tind)[0].value)[0, 0]
                sides.append((xphys, val))
            for d in range(2):
                h.zero('facet %d: both cell maps reach the same point of the curved edge [%d]' % (f, d), sides[0][0][d] - sides[1][0][d])
            h.zero('facet %d: value jump across the curved edge' % f, sides[0][1] - sides[1][1])


def build_configs(tier, seed):
    quick = tier == 'quick'
    rng = np.random.RandomState(seed)
    cfgs = []

    def add(name, fn=trace_config, **kw):
        opts = dict(timeout=kw.pop('timeout', 300 if quick else 1800))
        cfgs.append(dict(name=name, fn=fn, kw=kw, opts=opts))
    perms4 = list(itertools.permutations(range(4)))
    # --- two triangles sharing an edge, ALL 24 vertex numberings (the default constructor sorts t) ------------------------------------------
    for pi, perm in enumerate(perms4):
        for spec in TRI_IFB:
            heavy = spec in ('ElementTriP4', 'ElementTriRT2', 'ElementTriN2', 'ElementComposite(ElementVector(ElementTriP2()), ElementTriP1())',
                             'ElementTriCCR', 'ElementTriP2B', 'ElementTriMini', 'ElementVector(ElementTriP2())')
            if quick and heavy and pi % 6 != (len(spec) % 6):
                continue
            add('tri2/perm=%s/%s' % (''.join(map(str, perm)), spec.replace(' ', '')), mesh='tri2', spec=spec, pt=renumbered('tri2', perm))
        if not quick or pi % 4 == 1:
            for spec in TRI_DIRECT:
                add('tri2/perm=%s/%s/direct' % (''.join(map(str, perm)), spec), mesh='tri2', spec=spec, pt=renumbered('tri2', perm), via='direct')
        # non-conforming: Crouzeix-Raviart continuous at the facet midpoint
        if not quick or pi % 3 == 0:
            add('tri2/perm=%s/ElementTriCR/midpoint' % ''.join(map(str, perm)), mesh='tri2', spec='ElementTriCR', pt=renumbered('tri2', perm), point='mid')
    # C1 / non-conforming plate elements on Heronian cells
    for pi, perm in enumerate(perms4):
        if quick and pi % 6 != 0:
            continue
        for spec in ['ElementTriMorley', 'ElementTriHermite']:
            add('tri2heron/perm=%s/%s' % (''.join(map(str, perm)), spec), fn=morley_config, spec=spec, pt=renumbered('tri2heron', perm))
        add('tri2heron/perm=%s/ElementTriArgyris/C1' % ''.join(map(str, perm)), mesh='tri2heron', spec='ElementTriArgyris',
            pt=renumbered('tri2heron', perm), free='none', via='direct', c1=True, timeout=900 if quick else 3000)
    # 3-cell fan
    for spec in (['ElementTriP3', 'ElementTriRT1', 'ElementTriN2'] if quick else TRI_IFB):
        add('tri3fan/%s' % spec.replace(' ', ''), mesh='tri3fan', spec=spec)
    # history: one element object reused on a renumbered mesh of equal size
    for spec in ['ElementTriRT1', 'ElementTriBDM1', 'ElementTriN1', 'ElementTriP3']:
        add('tri2/reuse/%s' % spec, mesh='tri2', spec=spec, pt=renumbered('tri2', (2, 0, 3, 1)), reuse_from=renumbered('tri2', (0, 1, 2, 3)))
    # meshes produced by adaptive refinement must still be sorted for multi-DOF-per-facet elements (numeric geometry)
    for spec in ['ElementTriP3', 'ElementTriRT2', 'ElementTriN2'] + ([] if quick else ['ElementTriP4', 'ElementTriBDM1']):
        add('tri2perm/adaptive/%s' % spec, mesh='tri2perm', spec=spec, free='none', adaptive=[0])
    # sort_t switched off: only elements with one DOF per facet are inside the claim
    for spec in ['ElementTriP2', 'ElementTriRT1', 'ElementTriN1']:
        add('tri2/sort_t=False/%s' % spec, mesh='tri2', spec=spec, pt=renumbered('tri2', (3, 1, 0, 2)), sort_t=False)
    # ... in every local vertex order of the two cells (counter-clockwise pairs traverse the shared edge in opposite directions)
    perms3 = list(itertools.permutations(range(3)))
    cname, p_, t_ = topo('tri2')
    for ia, pa in enumerate(perms3):
        for ib, pb in enumerate(perms3):
            t2 = t_.copy()
            t2[:, 0] = t_[list(pa), 0]
            t2[:, 1] = t_[list(pb), 1]
            for spec in ['ElementTriP2', 'ElementTriRT1', 'ElementTriN1', 'ElementTriRT0', 'ElementTriCR']:
                add('tri2/sort_t=False/local=%s-%s/%s' % (''.join(map(str, pa)), ''.join(map(str, pb)), spec), mesh='tri2', spec=spec,
                    pt=(cname, p_, t2), sort_t=False, **(dict(point='mid') if spec == 'ElementTriCR' else {}))
    # --- two quadrilaterals, all 4 x 4 cyclic shifts ------------------------------------------------------------------------------------------
    for r0 in range(4):
        for r1 in range(4):
            for spec in QUAD:
                heavy = spec in ('ElementQuad2', 'ElementQuadS2', 'ElementQuadP(3)', 'ElementQuadRT1', 'ElementQuadN1')
                if quick and heavy and (r0 + 2 * r1) % 4 != (len(spec) % 4):
                    continue
                piola = spec in ('ElementQuadRT1', 'ElementQuadN1')
                add('quad2/shift=%d%d/%s' % (r0, r1, spec), mesh='quad2', spec=spec, pt=shifted('quad2', (r0, r1)), via='direct',
                    free=([2] if piola else None), timeout=600 if quick else 2400)
    # --- 2 x 2 patch around an interior vertex (corner vertices carry the highest labels): cyclic shifts of the four cells ------------------
    shifts4 = ([(0, 0, 0, 0), (0, 3, 1, 0), (0, 3, 1, 2), (1, 2, 3, 0), (2, 2, 1, 3), (3, 1, 0, 1)] if quick
               else list(itertools.product(range(4), repeat=4)))
    for sh in shifts4:
        for spec in ['ElementQuadRT1', 'ElementQuad2'] + ([] if quick else ['ElementQuadN1']):
            add('quad4grid/shift=%s/%s' % (''.join(map(str, sh)), spec), mesh='quad4grid', spec=spec, pt=shifted('quad4grid', sh), via='direct',
                free=[1], timeout=900 if quick else 3000)
    # --- curved second-order meshes ------------------------------------------------------------------------------------------------------------
    for mesh, cls, spec in [('tri2', 'MeshTri2', 'ElementTriP2'), ('tri2', 'MeshTri2', 'ElementTriP1'), ('quad2', 'MeshQuad2', 'ElementQuad2'),
                            ('quad2', 'MeshQuad2', 'ElementQuad1')] + ([] if quick else [('tri2', 'MeshTri2', 'ElementTriP3'), ('quad2', 'MeshQuad2', 'ElementQuadS2')]):
        cfgs.append(dict(name='curved/%s/%s/%s' % (mesh, cls, spec), fn=curved_continuity_config, kw=dict(mesh=mesh, cls=cls, spec=spec), opts=dict(timeout=900)))
    # --- two tetrahedra: vertex numberings ---------------------------------------------------------------------------------------------------
    perms5 = list(itertools.permutations(range(5)))
    sel = [perms5[i] for i in (sorted(rng.choice(len(perms5), 12, replace=False)) if quick else range(len(perms5)))]
    for perm in sel:
        for spec in TET:
            heavy = spec in ('ElementTetCCR', 'ElementTetMini', 'ElementTetP2')
            if quick and heavy and sum(perm[:2]) % 3 != 0:
                continue
            # bubble / CCR tetrahedra with ALL coordinates symbolic: ~9 min each and one in three without a verdict (measured): one free vertex
            add('tet2/perm=%s/%s' % (''.join(map(str, perm)), spec), mesh='tet2', spec=spec, pt=renumbered('tet2', perm),
                free=([int(perm[4])] if (quick or heavy) else None), timeout=600 if quick else 1200)
    # --- two hexahedra: the 24 rotations of the second cell (numeric geometry) ------------------------------------------------------------------------
    rots = hex_rotations()
    for ri, rot in enumerate(rots):
        if quick and ri % 8 != 3:
            continue
        cname, p, t = topo('hex2')
        t2 = t.copy()
        t2[:, 1] = t[rot, 1]
        for spec in (HEX if not quick else ['ElementHex1', 'ElementHexRT1']):
            add('hex2/rot=%d/%s' % (ri, spec), mesh='hex2', spec=spec, pt=(cname, p, t2), via='direct', free='none', timeout=900 if quick else 3000)
    # --- 1-D ---------------------------------------------------------------------------------------------------------------------------------------
    for spec in ['ElementLineP1', 'ElementLineP2', 'ElementLineMini', 'ElementLinePp(3)']:
        add('line3perm/%s' % spec, mesh='line3perm', spec=spec, via='direct')
    return cfgs


META = dict(
    explanation='Meshes are built by the default constructors from explicit (p, t) in every enumerated numbering / local order with SYMBOLIC '
                'vertex coordinates.  For a SYMBOLIC coefficient vector and a SYMBOLIC point on each interior facet, z3 decides that the jump of '
                'the value (H1), of u.n~ (H(div)) or of the tangential components (H(curl)) between the two one-sided traces is identically '
                'zero; C1 elements: gradient jump; Crouzeix-Raviart: jump at the facet midpoint; Morley/Hermite: vertex values, midpoint normal '
                'derivative / vertex gradients.  Simplices: traces produced by the real InteriorFacetBasis(side=0/1, quadrature=(S, W)); '
                'quadrilaterals/hexahedra: gbasis + element_dofs at reference points on either side that provably map to the same point.',
    symbolic='vertex coordinates, coefficient vector, facet point',
    bounds=dict(tri='two triangles in all 24 vertex numberings, 3-cell fan', quad='two quadrilaterals, all 16 cyclic shifts; 2x2 patch in 6 (thorough: all 256) shift combinations',
                tet='two tetrahedra, 12 (thorough: all 120) numberings; quick: one free vertex', hex='two hexahedra, 24 rotations of the second, numeric geometry',
                histories='element object reused on a renumbered mesh; mesh after adaptive refinement; sort_t=False for one-DOF-per-facet elements'),
    outside=['curved meshes beyond value continuity of H1 elements on MeshTri2/MeshQuad2 (H(div)/H(curl) on curved cells, curved 3-D cells)', 'larger meshes', 'ElementTriN3 through FacetBasis (its gbasis rejects per-cell point arrays; covered by the direct route)',
             'triangle meshes with sort_t=False for elements with several DOFs per facet (documented by the library)'],
    stubs=[],
    assumptions=['mesh validity (non-degenerate cells, neighbours on opposite sides of the shared facet, convex quadrilaterals)'],
    design_ref='DESIGN.md 4/C03',
)

if __name__ == '__main__':
    sys.exit(harness.main('C03', 'checks.c03', build_configs, META))
