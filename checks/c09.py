"""C09 - shape functions: delivered derivative fields are the true derivatives; duality; partition of unity.

Symbolic: the reference point X (1-3 reals) and, for the mapped statements, all vertex coordinates of a one-cell mesh.
Real code: every lbasis; ElementH1/Hdiv/Hcurl/Matrix/Global/Vector/Composite/DG.gbasis; LinePp/QuadP Legendre evaluation.
Oracle: engine.astdiff (symbolic derivative of the DELIVERED value term); the solver decides equality with the delivered
derivative field.  Mapped: chain rule against the harness' own multilinear/affine map built from refdom.p.
"""
import itertools
import sys
import warnings

import numpy as np

from engine import harness
from engine.harness import Skip
from engine.astdiff import dsym
from engine.sym import Sym, tosym
from engine.symnp import det_obj, inv_obj
from engine.zoo import make_mesh

REF_MESH = dict(RefLine='line2', RefTri='tri1', RefQuad='quad1', RefTet='tet1', RefHex='hex1', RefWedge='wedge1')
POU = ['ElementLineP1', 'ElementLineP2', 'ElementTriP1', 'ElementTriP2', 'ElementTriP3', 'ElementTriP4', 'ElementQuad1',
       'ElementQuad2', 'ElementQuadS2', 'ElementTetP1', 'ElementTetP2', 'ElementHex1', 'ElementHexS2', 'ElementHex2',
       'ElementTetCR', 'ElementTetCCR', 'ElementTriCR', 'ElementTriP1B', 'ElementTriP2B', 'ElementWedge1', 'ElementLineP0',
       'ElementTriP0', 'ElementQuad0', 'ElementTetP0', 'ElementHex0']
NODAL = ['ElementLineP1', 'ElementLineP2', 'ElementTriP1', 'ElementTriP2', 'ElementTriP3', 'ElementTriP4', 'ElementQuad1',
         'ElementQuad2', 'ElementQuadS2', 'ElementTetP1', 'ElementTetP2', 'ElementHex1', 'ElementHexS2', 'ElementHex2',
         'ElementTriCR', 'ElementTetCR', 'ElementWedge1', 'ElementLineMini', 'ElementTriMini', 'ElementTetMini',
         'ElementTriCCR', 'ElementTetCCR', 'ElementTriP0', 'ElementQuad0', 'ElementTetP0', 'ElementHex0', 'ElementLineP0']


def make_elem(spec):
    import skfem.element as E
    if spec == 'ElementTriArgyris/derivatives=3':
        # the class attribute that asks ElementGlobal for third derivatives (its only user in the library is ElementHexC1)
        return type('ElementTriArgyris3', (E.ElementTriArgyris,), dict(derivatives=3))()
    if isinstance(spec, str) and '(' in spec:
        return eval(spec, {k: getattr(E, k) for k in E.__all__})
    return getattr(E, spec)()


def family(e):
    import skfem.element as E
    from skfem.element.element_matrix import ElementMatrix
    if isinstance(e, ElementMatrix):
        return 'matrix'
    for name, cls in (('global', E.ElementGlobal), ('hdiv', E.ElementHdiv), ('hcurl', E.ElementHcurl), ('h1', E.ElementH1),
                      ('dg', E.ElementDG), ('vector', E.ElementVector), ('composite', E.ElementComposite)):
        if isinstance(e, cls):
            return name
    return 'other'


def nbfun(e):
    return int(e.nodal_dofs * e.refdom.nnodes + (e.edge_dofs * e.refdom.nedges if e.refdom.dim() == 3 else 0)
               + e.facet_dofs * e.refdom.nfacets + e.interior_dofs)


# ---- derivative operator usable in both modes ----------------------------------------------------------------
def deriv(h, fun, X, k):
    """d fun(X) / d X[k] : astdiff of the delivered term (symbolic) / 5-point stencil (float replay)."""
    if h.sym_mode:
        val = fun(X)
        cache = {}
        if isinstance(val, np.ndarray):
            out = np.empty(val.shape, dtype=object)
            for idx in np.ndindex(*val.shape):
                out[idx] = dsym(val[idx], X[k].ravel()[0], cache)
            return out
        return dsym(val, X[k].ravel()[0], cache)
    eps = 1e-3
    vals = []
    for s in (-2, -1, 1, 2):
        Y = np.array(X, dtype=float)
        Y[k] = Y[k] + s * eps
        vals.append(np.asarray(fun(Y), dtype=float))
    return (vals[0] - 8 * vals[1] + 8 * vals[2] - vals[3]) / (12 * eps)


FD_SCALE = 1e3   # float replay only: finite-difference tolerance 1e-6


def refpoint(h, dim):
    nom = np.array([0.28125, 0.21875, 0.34375])[:dim].reshape(dim, 1)
    return h.sym('X', (dim, 1), nominal=nom)


# ---- (1) reference statements -----------------------------------------------------------------------------------
def ref_config(h, spec, checks):
    e = make_elem(spec)
    fam = family(e)
    dim = e.refdom.dim()
    X = refpoint(h, dim)
    N = nbfun(e)
    h.sample(dict(element=spec, family=fam, local_functions=N, checks=list(checks)))
    sc = 1.0 if h.sym_mode else FD_SCALE
    ap = None
    if 'approx' in checks and h.sym_mode:
        ap = ([X[k, 0] >= 0 for k in range(dim)] + [X[k, 0] <= 1 for k in range(dim)], 1e-12)
    if 'history' in checks:
        # an earlier evaluation at a DIFFERENT point set of equal shape that shares a coordinate with X must not be remembered
        Xprev = np.array(X, dtype=X.dtype)
        Xprev[-1] = Xprev[-1] + 1
        e.lbasis(Xprev, 0)
        fresh = make_elem(spec)
        for i in range(N):
            a_, b_ = e.lbasis(X, i), fresh.lbasis(X, i)
            h.equal('value[%d] after an earlier call == value on a fresh element' % i, np.asarray(a_[0]), np.asarray(b_[0]))
            h.equal('derivative[%d] after an earlier call == on a fresh element' % i, np.asarray(a_[1]), np.asarray(b_[1]))
            fresh = make_elem(spec)
        e.lbasis(Xprev, 0)
    if 'deriv' in checks:
        for i in range(N):
            out = e.lbasis(X, i)
            phi, dphi = out[0], out[1]
            f = lambda Y, i=i: np.asarray(e.lbasis(Y, i)[0])
            if fam in ('h1',):
                for k in range(dim):
                    h.equal('dphi[%d]/dX%d' % (i, k), np.asarray(dphi[k]), deriv(h, f, X, k), scale=sc)
            elif fam == 'hdiv':
                div = 0
                for k in range(dim):
                    div = div + deriv(h, lambda Y, i=i, k=k: np.asarray(e.lbasis(Y, i)[0][k]), X, k)
                h.equal('div[%d]' % i, np.asarray(dphi), np.asarray(div), scale=sc, approx=ap)
            elif fam == 'hcurl':
                d = lambda a, b: deriv(h, lambda Y, i=i, a=a: np.asarray(e.lbasis(Y, i)[0][a]), X, b)
                if dim == 2:
                    h.equal('curl[%d]' % i, np.asarray(dphi), np.asarray(d(1, 0) - d(0, 1)), scale=sc)
                else:
                    cu = [d(2, 1) - d(1, 2), d(0, 2) - d(2, 0), d(1, 0) - d(0, 1)]
                    for a in range(3):
                        h.equal('curl[%d][%d]' % (i, a), np.asarray(dphi[a]), np.asarray(cu[a]), scale=sc)
            elif fam == 'matrix':
                p = np.asarray(phi)
                h.concrete('matrix-valued[%d]' % i, p.shape[:2] == (dim, dim))
                for a in range(dim):
                    for b in range(a + 1, dim):
                        h.equal('symmetric[%d][%d,%d]' % (i, a, b), p[a, b], p[b, a])
    if 'pou' in checks:
        tot = 0
        for i in range(N):
            if hasattr(e, 'doflocs') and np.isnan(np.asarray(e.doflocs[i], dtype=float)).any():
                continue
            tot = tot + np.asarray(e.lbasis(X, i)[0])
        h.equal('partition of unity', np.asarray(tot), np.ones((1,)) + 0 * X[0])
    if 'nodal' in checks:
        D = np.asarray(e.doflocs, dtype=float)
        for j in range(N):
            if np.isnan(D[j]).any():
                continue
            Xj = h.const(D[j].reshape(dim, 1))
            for i in range(N):
                if np.isnan(D[i]).any():
                    continue
                v = np.asarray(e.lbasis(Xj, i)[0]).ravel()[0]
                h.zero('phi_%d(x_%d)' % (i, j), v - (1 if i == j else 0))
    if 'flux' in checks:
        # lowest-order H(div): normal flux through reference facet f of function i is delta_if (up to the sign convention);
        # lowest-order H(curl): circulation along edge
        s = h.sym('s', (max(dim - 1, 1),), nominal=np.array([0.3125, 0.28125])[:max(dim - 1, 1)])
        P = np.asarray(e.refdom.p, dtype=float)
        if fam == 'hdiv':
            facets = e.refdom.facets
            for f_, fv in enumerate(facets):
                fv = list(dict.fromkeys(fv))
                a = P[:, fv[0]]
                tang = [P[:, v] - a for v in fv[1:dim]]
                Xs = a.reshape(dim, 1) + sum((s[k] * tang[k].reshape(dim, 1) for k in range(dim - 1)), 0 * X)
                if dim == 2:
                    nrm = np.array([tang[0][1], -tang[0][0]])
                else:
                    nrm = np.cross(tang[0], tang[1])
                # facet measure factor: |tangent| (2-D) / parallelogram area (3-D); simplices have half of it in 3-D
                for i in range(N):
                    val = np.asarray(e.lbasis(Xs, i)[0])
                    flux = sum(val[k].ravel()[0] * float(nrm[k]) for k in range(dim))
                    if i != f_:
                        h.zero('flux[%d through facet %d]' % (i, f_), flux)
                    else:
                        # constant along the facet, and of the same magnitude c for every facet (the normalisation c is the
                        # element's convention; c != 0 is asked as an existential goal)
                        if f_ == 0:
                            x0 = a + sum(0.25 * tang[k] for k in range(dim - 1))
                            v0 = np.asarray(e.lbasis(h.const(x0.reshape(dim, 1)), i)[0])
                            c0 = sum(v0[k].ravel()[0] * float(nrm[k]) for k in range(dim))
                            if h.sym_mode:
                                h.nonzero_somewhere('flux normalisation c != 0', c0)
                        h.zero('flux^2[%d through facet %d] == c^2' % (i, f_), flux * flux - c0 * c0)
        elif fam == 'hcurl':
            edges = e.refdom.edges if dim == 3 else e.refdom.facets
            for f_, ev in enumerate(edges):
                a, b = P[:, ev[0]], P[:, ev[1]]
                t = b - a
                Xs = a.reshape(dim, 1) + s[0] * t.reshape(dim, 1)
                for i in range(N):
                    val = np.asarray(e.lbasis(Xs, i)[0])
                    circ = sum(val[k].ravel()[0] * float(t[k]) for k in range(dim))
                    if i != f_:
                        h.zero('circulation[%d along edge %d]' % (i, f_), circ)
                    else:
                        if f_ == 0:
                            v0 = np.asarray(e.lbasis(h.const((a + 0.25 * t).reshape(dim, 1)), i)[0])
                            c0 = sum(v0[k].ravel()[0] * float(t[k]) for k in range(dim))
                            if h.sym_mode:
                                h.nonzero_somewhere('circulation normalisation c != 0', c0)
                        h.zero('circulation^2[%d along edge %d] == c^2' % (i, f_), circ * circ - c0 * c0)


# ---- own reference map -----------------------------------------------------------------------------------------------
def own_map(refdom, P, cell, X):
    """x = F(X) built from refdom.p (affine for simplices, multilinear for tensor cells, prism)."""
    name = refdom.__name__
    R = np.asarray(refdom.p, dtype=float)
    dim = R.shape[0]
    x = []
    if name in ('RefLine', 'RefTri', 'RefTet'):
        # vertex 0 at the origin of the reference cell, vertex k at a unit vector
        lam = []
        for a in range(R.shape[1]):
            if np.allclose(R[:, a], 0):
                lam.append(1 - sum(X[k] for k in range(dim)))
            else:
                lam.append(X[int(np.argmax(R[:, a]))])
    elif name in ('RefQuad', 'RefHex'):
        lam = []
        for a in range(R.shape[1]):
            w = 1
            for k in range(dim):
                w = w * (X[k] if R[k, a] == 1 else (1 - X[k]))
            lam.append(w)
    elif name == 'RefWedge':
        lam = []
        for a in range(R.shape[1]):
            tri = (1 - X[0] - X[1]) if (R[0, a] == 0 and R[1, a] == 0) else (X[0] if R[0, a] == 1 else X[1])
            lam.append(tri * (X[2] if R[2, a] == 1 else (1 - X[2])))
    else:
        raise ValueError(name)
    for d in range(P.shape[0]):
        x.append(sum(lam[a] * P[d, cell[a]] for a in range(R.shape[1])))
    return x


def own_DF(h, refdom, P, cell, X):
    dim = P.shape[0]
    DF = np.empty((dim, dim), dtype=object if h.sym_mode else float)
    for j in range(dim):
        col = deriv(h, lambda Y: np.array([np.asarray(v).ravel()[0] for v in own_map(refdom, P, cell, Y)],
                                          dtype=object if h.sym_mode else float), X, j)
        for k in range(dim):
            DF[k, j] = col[k]
    return DF


def _fields(df):
    out = {}
    for name in ('value', 'grad', 'div', 'curl', 'hess', 'grad3', 'grad4', 'grad5', 'grad6'):
        v = getattr(df, name, None)
        if v is not None:
            out[name] = v
    return out


def _pt(a):
    """Field array (..., ncells, nqp) -> array of entries at cell 0, point 0."""
    a = np.asarray(a)
    return a[..., 0, 0]


# ---- (2) mapped statements: chain rule through gbasis ----------------------------------------------------------------
def mapped_config(h, spec, mesh, free=None, maxfun=None, mesh_cls=None):
    e = make_elem(spec)
    fam = family(e)
    dim = e.refdom.dim()
    with warnings.catch_warnings():
        warnings.simplefilter('ignore')
        m = make_mesh(h, mesh, free=free, cls=mesh_cls)
        mapping = m._mapping()
        X = refpoint(h, dim)
        P = m.doflocs
        cell = np.asarray(m.t[:, 0])
        DF = own_DF(h, e.refdom, P, cell, X)
        if h.sym_mode:
            # precondition: the map is non-degenerate at the evaluated point
            for kc in range(m.t.shape[1]):
                dd = det_obj(DF if kc == 0 else own_DF(h, e.refdom, P, np.asarray(m.t[:, kc]), X))
                if tosym(dd).c is None:
                    h.assume(dd != 0)
            iDF = inv_obj(DF)
        else:
            iDF = np.linalg.inv(np.asarray(DF, dtype=float))
        sc = 1.0 if h.sym_mode else FD_SCALE
        ap = None
        if spec == 'ElementTriBDM1' and h.sym_mode:
            ap = ([X[k, 0] >= 0 for k in range(dim)] + [X[k, 0] <= 1 for k in range(dim)], 1e-10)
        try:
            from skfem.assembly import Dofs
            N = Dofs(m, e).element_dofs.shape[0]
        except Exception:
            N = nbfun(e)
        funs = range(N) if maxfun is None else list(range(N))[:maxfun]
        h.sample(dict(element=spec, family=fam, mesh=mesh, local_functions=int(N), symbolic_geometry=(free is None)))
        tind = None
        for i in funs:
            comps = e.gbasis(mapping, X, i, tind=tind)
            for c, df in enumerate(comps):
                F = _fields(df)
                g = lambda Y, name, i=i, c=c: _pt(getattr(e.gbasis(mapping, Y, i, tind=tind)[c], name))
                val = _pt(F['value'])
                tag = '%d.%d' % (i, c)
                # dvalue/dX_j
                dV = [deriv(h, lambda Y: g(Y, 'value'), X, j) for j in range(dim)]   # each: shape of value
                if 'grad' in F:
                    G = _pt(F['grad'])       # value.shape + (dim,) ... in skfem: grad has the derivative index FIRST for scalars,
                    # for vector fields grad[i, j] = d_j u_i
                    for j in range(dim):
                        if val.ndim == 0:
                            rhs = sum(G[k] * DF[k, j] for k in range(dim))
                            h.equal('chain grad[%s] d/dX%d' % (tag, j), np.asarray(dV[j]), np.asarray(rhs), scale=sc)
                        else:
                            for a in range(val.shape[0]):
                                rhs = sum(G[a, k] * DF[k, j] for k in range(dim))
                                h.equal('chain grad[%s][%d] d/dX%d' % (tag, a, j), np.asarray(dV[j][a]), np.asarray(rhs), scale=sc)
                if 'div' in F and val.ndim == 1:
                    dv = sum(dV[j][k] * iDF[j, k] for j in range(dim) for k in range(dim))
                    h.equal('div[%s]' % tag, np.asarray(_pt(F['div'])), np.asarray(dv), scale=sc, approx=ap)
                if 'curl' in F and val.ndim == 1:
                    dux = lambda a, b: sum(dV[j][a] * iDF[j, b] for j in range(dim))    # d u_a / d x_b
                    C = _pt(F['curl'])
                    if dim == 2:
                        h.equal('curl[%s]' % tag, np.asarray(C), np.asarray(dux(1, 0) - dux(0, 1)), scale=sc)
                    else:
                        cu = [dux(2, 1) - dux(1, 2), dux(0, 2) - dux(2, 0), dux(1, 0) - dux(0, 1)]
                        for a in range(3):
                            h.equal('curl[%s][%d]' % (tag, a), np.asarray(C[a]), np.asarray(cu[a]), scale=sc)
                prev, prevname = 'grad', 'grad'
                for name in ('hess', 'grad3', 'grad4'):
                    if name in F and prev in F and val.ndim == 0:
                        Hh = _pt(F[name])
                        dG = [deriv(h, lambda Y, prev=prev: g(Y, prev), X, j) for j in range(dim)]
                        for idx in np.ndindex(*_pt(F[prev]).shape):
                            for j in range(dim):
                                rhs = sum(Hh[idx + (k,)] * DF[k, j] for k in range(dim))
                                h.equal('chain %s[%s]%s d/dX%d' % (name, tag, list(idx), j), np.asarray(dG[j][idx]), np.asarray(rhs), scale=sc)
                        prev = name
                    else:
                        break


# ---- (5) duality of globally defined elements: point values / derivatives at the vertices -----------------------------
def global_dual_config(h, spec, mesh):
    e = make_elem(spec)
    dim = e.refdom.dim()
    with warnings.catch_warnings():
        warnings.simplefilter('ignore')
        m = make_mesh(h, mesh, free='none')
        mapping = m._mapping()
        names = list(e.dofnames)
        nd = e.nodal_dofs
        R = np.asarray(e.refdom.p, dtype=float)
        from skfem.assembly import Dofs
        N = Dofs(m, e).element_dofs.shape[0]
        t = h.sym('t', ())          # a free symbol so that the run has a solver obligation even though data is numeric
        h.zero('trivial', t - t)
        want = {'u': ('value', ()), 'u_x': ('grad', (0,)), 'u_y': ('grad', (1,)), 'u_xx': ('hess', (0, 0)),
                'u_xy': ('hess', (0, 1)), 'u_yy': ('hess', (1, 1))}
        h.sample(dict(element=spec, mesh=mesh, nodal_dof_names=names[:nd]))
        for a in range(R.shape[1]):
            Xa = h.const(R[:, a].reshape(dim, 1))
            for j in range(N):
                df = e.gbasis(mapping, Xa, j)[0]
                for k in range(nd):
                    nm = names[k]
                    if nm not in want:
                        continue
                    fld, idx = want[nm]
                    v = _pt(getattr(df, fld))[idx] if idx else _pt(getattr(df, fld))
                    tgt = 1 if j == a * nd + k else 0
                    if h.sym_mode:
                        h.zero('%s of basis %d at vertex %d' % (nm, j, a), tosym(v) - tgt)
                    else:
                        h.zero('%s of basis %d at vertex %d' % (nm, j, a), float(v) - tgt, scale=1e3)
        # point-value functionals away from the vertices (edge midpoints, cell centre, ...): basis j at the MAPPED reference
        # location of local DOF i is delta_ij
        D = np.asarray(getattr(e, 'doflocs', np.zeros((0, dim))), dtype=float)
        dn = list(e.dofnames)
        off_f, off_e, off_i = e.nodal_dofs, e.nodal_dofs + e.facet_dofs, e.nodal_dofs + e.facet_dofs + (e.edge_dofs if dim == 3 else 0)
        lay = []
        for a in range(e.refdom.nnodes):
            lay += [dn[k] for k in range(e.nodal_dofs)]
        if dim == 3:
            for a in range(e.refdom.nedges):
                lay += [dn[off_e + k] for k in range(e.edge_dofs)]
        if dim >= 2:
            for a in range(e.refdom.nfacets):
                lay += [dn[off_f + k] for k in range(e.facet_dofs)]
        lay += [dn[off_i + k] for k in range(e.interior_dofs)]
        if D.shape[0] == N and len(lay) == N:
            for i in range(e.refdom.nnodes * nd, N):
                if lay[i] != 'u' or np.isnan(D[i]).any():
                    continue
                Xi = h.const(D[i].reshape(dim, 1))
                for j in range(N):
                    v = _pt(e.gbasis(mapping, Xi, j)[0].value)
                    tgt = 1 if j == i else 0
                    if h.sym_mode:
                        h.zero('value of basis %d at the location of DOF %d' % (j, i), tosym(v) - tgt)
                    else:
                        h.zero('value of basis %d at the location of DOF %d' % (j, i), float(v) - tgt, scale=1e3)


def build_configs(tier, seed):
    import skfem.element as E
    quick = tier == 'quick'
    cfgs = []
    leaf = []
    for n in E.__all__:
        if not n.startswith('Element'):
            continue
        c = getattr(E, n)
        rd = getattr(c, 'refdom', None)
        if rd is None or rd.__name__ == 'Refdom':
            continue
        if n in ('ElementLinePp', 'ElementQuadP'):
            for p in (range(1, 4) if quick else range(1, 7)):
                leaf.append('%s(%d)' % (n, p))
        else:
            leaf.append(n)
    for spec in leaf:
        e = make_elem(spec)
        fam = family(e)
        base = spec.split('(')[0]
        if fam in ('h1', 'hdiv', 'hcurl', 'matrix'):
            checks = ['deriv']
            if base in POU:
                checks.append('pou')
            if base in NODAL:
                checks.append('nodal')
            if e.facet_dofs == 1 and fam == 'hdiv' or (fam == 'hcurl' and (e.edge_dofs if e.refdom.dim() == 3 else e.facet_dofs) == 1):
                checks.append('flux')    # lowest-order H(div) / H(curl): one functional per facet / edge
            if base == 'ElementTriBDM1':
                checks.append('approx')  # its Gauss-point constants involve sqrt(3): identities hold to rounding only
            if base in ('ElementLinePp', 'ElementQuadP'):
                checks.insert(0, 'history')
            if 'Skeleton' in base:
                checks.remove('deriv')   # facet-supported elements deliver a zero gradient by design
            cfgs.append(dict(name='ref/%s' % spec, fn=ref_config, kw=dict(spec=spec, checks=checks), opts=dict(timeout=600)))
        # mapped statements
        rd = e.refdom.__name__
        if rd not in REF_MESH:
            continue
        mesh = REF_MESH[rd]
        if fam == 'global':
            # V comes from an exact rational inverse on numeric geometry; X symbolic
            heavy = False
            if base == 'ElementHexC1':
                continue
            if mesh == 'tri1':
                mesh = 'tri1heron'
            if not (heavy and quick):
                cfgs.append(dict(name='mapped/%s/%s/Gnum' % (spec, mesh), fn=mapped_config,
                                 kw=dict(spec=spec, mesh=mesh, free='none', maxfun=None if not quick else 6),
                                 opts=dict(timeout=900 if quick else 3000)))
            cfgs.append(dict(name='dual/%s/%s' % (spec, mesh), fn=global_dual_config, kw=dict(spec=spec, mesh=mesh),
                             opts=dict(timeout=900 if quick else 3000)))
            continue
        if fam not in ('h1', 'hdiv', 'hcurl', 'matrix'):
            continue
        if 'Skeleton' in base:
            continue
        free = None
        if base == 'ElementTriBDM1':
            free = 'none'
        if rd == 'RefQuad' and fam in ('hdiv', 'hcurl'):
            # Piola maps on bilinear cells divide by det DF(X): fully symbolic geometry times out (measured 900 s)
            free = [2] if not quick else 'none'
        if base == 'ElementHexRT1' and quick:
            continue
        if rd in ('RefHex', 'RefWedge'):
            free = [0] if not quick else 'none'
        if base == 'ElementHexRT1':
            free = 'none'      # Piola map on a trilinear cell with a symbolic vertex: no verdict within 50 min (measured); numeric geometry, symbolic point
        if quick and base == 'ElementHexRT1':
            continue        # 5 min; thorough only
        cfgs.append(dict(name='mapped/%s/%s%s' % (spec, mesh, '' if free is None else '/free=%s' % free), fn=mapped_config,
                         kw=dict(spec=spec, mesh=mesh, free=free), opts=dict(timeout=900 if quick else 3000)))
    # third derivatives of globally defined elements (mixed multi-indices such as (0,1,0))
    cfgs.append(dict(name='mapped/ElementTriArgyris/derivatives=3/tri1heron/Gnum', fn=mapped_config,
                     kw=dict(spec='ElementTriArgyris/derivatives=3', mesh='tri1heron', free='none', maxfun=4 if quick else 8), opts=dict(timeout=900)))
    # wrappers
    wr = [('ElementVector(ElementTriP2())', 'tri1'), ('ElementDG(ElementTriP2())', 'tri1'),
          ('ElementVector(ElementTetP1())', 'tet1'), ('ElementDG(ElementTriRT1())', 'tri1'),
          ('ElementComposite(ElementVector(ElementTriP2()), ElementTriP1())', 'tri1'),
          ('ElementComposite(ElementTriRT1(), ElementTriP0())', 'tri1'), ('ElementVector(ElementQuad1())', 'quad1'),
          ('ElementVector(ElementLineP2())', 'line2')]
    for spec, mesh in wr:
        cfgs.append(dict(name='mapped/%s/%s' % (spec.replace(' ', ''), mesh), fn=mapped_config, kw=dict(spec=spec, mesh=mesh),
                         opts=dict(timeout=900 if quick else 3000)))
    return cfgs


META = dict(
    explanation='Every exported element class: lbasis is executed at a SYMBOLIC reference point and z3 decides that each delivered '
                'derivative field (gradient / divergence / curl) equals the symbolic derivative (engine.astdiff) of the delivered value '
                'term; gbasis is executed on a one-cell mesh with SYMBOLIC vertex coordinates and z3 decides the chain rule '
                'd value/dX_j = sum_k grad_k dF_k/dX_j (and div, curl, Hessians, third derivatives) against the harness\' own '
                'affine/multilinear map; plus partition of unity for all X, nodality at the DOF locations (exact rationals), '
                'facet-flux / edge-circulation duality of H(div)/H(curl) elements along a symbolic facet parameter, and vertex '
                'value/derivative duality of globally defined elements (numeric geometry, exact rational Vandermonde inverse).',
    symbolic='reference point X; vertex coordinates of the cell; facet parameter s',
    bounds=dict(elements='all exported element classes with a reference cell; LinePp/QuadP p=1..3 (thorough 1..6); wrappers around 8 inner combinations',
                geometry='one cell per class: simplices and quadrilaterals fully symbolic (either orientation); hexahedron/prism numeric (thorough: one free vertex); '
                         'globally defined elements numeric geometry'),
    outside=['accuracy of the float LAPACK inverse used for globally defined elements in production (replaced by an exact inverse here)',
             'ElementHexC1 (729x729 Vandermonde)', 'float rounding'],
    stubs=['np.linalg.inv on object arrays -> exact Gauss-Jordan in Fractions (constant) / cofactor inverse (symbolic, n<=4)'],
    assumptions=['cell non-degenerate (determinant != 0), quadrilateral convex'],
    design_ref='DESIGN.md 4/C09',
)

if __name__ == '__main__':
    sys.exit(harness.main('C09', 'checks.c09', build_configs, META))
