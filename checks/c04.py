"""C04 - DOF numbering: gap-free, shared exactly along shared entities; local matrices (geometric formulation).

Symbolic: all vertex coordinates (the queries are linear) and one fresh symbol per local-matrix entry.
Real code: Dofs.__init__, AbstractBasis.__init__ (DOF-location scatter), element DOF counts of Vector/Composite/DG wrappers,
BilinearForm._assemble COO bookkeeping (kernel stubbed by fresh symbols).
  (i)   well-defined: all (cell, local index) pairs that reference one global number map their reference DOF location to the
        same physical point FOR ALL GEOMETRIES and carry the same DOF name; basis.doflocs holds that point
  (ii)  injective: two different numbers with the same name sit at points that differ for SOME geometry (existential; not for DG)
  (iii) gap-free 0..N-1, sharing pattern == cells containing the entity, interior DOFs in one cell, table agreement (concrete)
  (iv)  locality: assembled entry (i, j) is identically zero iff i and j share no integrated cell; shape (N_test, N_trial)
"""
import sys
import warnings

import numpy as np
import z3

from engine import harness
from engine.harness import Skip
from engine.sym import Sym, tosym
from engine.zoo import make_mesh
from checks.c09 import make_elem

ELEMS = {
    'line': ['ElementLineP1', 'ElementLineP2', 'ElementLineMini', 'ElementLineP0', 'ElementLineHermite',
             'ElementDG(ElementLineP1())', 'ElementVector(ElementLineP2())'],
    'tri': ['ElementTriP0', 'ElementTriP1', 'ElementTriP2', 'ElementTriP3', 'ElementTriP4', 'ElementTriMini', 'ElementTriCR',
            'ElementTriCCR', 'ElementTriP2B', 'ElementTriMorley', 'ElementTriArgyris', 'ElementTriHermite', 'ElementTriRT1',
            'ElementTriRT2', 'ElementTriN2', 'ElementTriBDM1',
            'ElementDG(ElementTriP2())', 'ElementVector(ElementTriP2())', 'ElementVector(ElementTriP1())',
            'ElementComposite(ElementTriP2(), ElementTriP1())', 'ElementComposite(ElementTriP2(), ElementTriP0())',
            'ElementComposite(ElementVector(ElementTriMini()), ElementTriP1())', 'ElementComposite(ElementTriRT1(), ElementTriP0())',
            'ElementComposite(ElementVector(ElementTriP2()), ElementTriP1(), ElementTriP0())',
            # explicit number of components different from the spatial dimension
            'ElementVector(ElementTriP2(), 3)', 'ElementVector(ElementTriP1(), 1)'],
    'quad': ['ElementQuad0', 'ElementQuad1', 'ElementQuad2', 'ElementQuadS2', 'ElementQuadP(3)', 'ElementQuadRT1',
             'ElementDG(ElementQuad1())', 'ElementVector(ElementQuad2())', 'ElementComposite(ElementQuad2(), ElementQuad1())'],
    'tet': ['ElementTetP0', 'ElementTetP1', 'ElementTetP2', 'ElementTetMini', 'ElementTetCR', 'ElementTetCCR', 'ElementTetRT1',
            'ElementTetN1', 'ElementVector(ElementTetP2())', 'ElementComposite(ElementVector(ElementTetP2()), ElementTetP1())',
            'ElementDG(ElementTetP2())',
            # several DOFs per edge followed by facet / interior blocks; edge and facet DOFs in different components
            'ElementVector(ElementTetCCR())', 'ElementComposite(ElementVector(ElementTetP2()), ElementTetP0())',
            'ElementComposite(ElementTetP2(), ElementTetCR())', 'ElementComposite(ElementTetN1(), ElementTetRT1())',
            'ElementVector(ElementTetP2(), 2)'],
    'hex': ['ElementHex0', 'ElementHex1', 'ElementHexS2', 'ElementHex2', 'ElementHexRT1', 'ElementVector(ElementHex1())',
            'ElementComposite(ElementHexS2(), ElementHex1())', 'ElementComposite(ElementHexS2(), ElementHexRT1())',
            'ElementVector(ElementHexS2(), 2)'],
    'wedge': ['ElementWedge1'],
}
MESHES = {
    'line': ['line3', 'line3perm'],
    'tri': ['tri2', 'tri2perm', 'tri3fan', 'tri4patch'],
    'quad': ['quad2'],
    'tet': ['tet2'],
    'hex': ['hex2'],
    'wedge': ['wedge1'],
}


def local_layout(e, refdom, dim):
    """(kind, entity slot, k) for each local index, following the documented order nodal, edge (3-D), facet, interior."""
    out = []
    for a in range(refdom.nnodes):
        for k in range(e.nodal_dofs):
            out.append(('nodal', a, k))
    if dim == 3 and e.edge_dofs > 0:
        for a in range(refdom.nedges):
            for k in range(e.edge_dofs):
                out.append(('edge', a, k))
    if dim >= 2 and e.facet_dofs > 0:
        for a in range(refdom.nfacets):
            for k in range(e.facet_dofs):
                out.append(('facet', a, k))
    for k in range(e.interior_dofs):
        out.append(('interior', 0, k))
    return out


def dofs_config(h, mesh, spec, free=None):
    import skfem as S
    from skfem.element import ElementDG
    with warnings.catch_warnings():
        warnings.simplefilter('ignore')
        m = make_mesh(h, mesh, free=free)
        e = make_elem(spec)
        # isoparametric classes: a one-point rule keeps the (irrelevant here) basis tabulation small
        iso = m.refdom.__name__ in ('RefQuad', 'RefHex', 'RefWedge')
        basis = S.CellBasis(m, e, intorder=1) if iso else S.CellBasis(m, e)
    dofs = basis.dofs
    ed = np.asarray(basis.element_dofs)
    nt = m.t.shape[1]
    dim = m.p.shape[0]
    N = int(basis.N)
    Nb = ed.shape[0]
    # DG: wrapper, or a class whose DOFs are all cell-interior (ElementTriP1DG etc.)
    is_dg = isinstance(e, ElementDG) or (e.nodal_dofs == 0 and e.facet_dofs == 0 and e.edge_dofs == 0)
    h.sample(dict(mesh=mesh, element=spec, N=N, local=int(Nb), cells=int(nt)))
    # ---- (iii) concrete side conditions --------------------------------------------------------------------------
    h.concrete('gap-free 0..N-1', sorted(set(ed.ravel().tolist())) == list(range(N)) and N == int(ed.max()) + 1)
    h.concrete('Nbfun == rows of element_dofs', basis.Nbfun == Nb)
    lay = local_layout(e, m.refdom, dim)
    h.concrete('local layout length', len(lay) == Nb, '%d vs %d' % (len(lay), Nb))
    t = np.asarray(m.t)
    ent_tables = {'nodal': (t, dofs.nodal_dofs), 'interior': (np.arange(nt)[None, :], dofs.interior_dofs)}
    if dim >= 2 and e.facet_dofs > 0:
        ent_tables['facet'] = (np.asarray(m.t2f), dofs.facet_dofs)
    if dim == 3 and e.edge_dofs > 0:
        ent_tables['edge'] = (np.asarray(m.t2e), dofs.edge_dofs)
    if len(lay) == Nb:
        ok_tab, ok_share = True, True
        for i, (kind, a, k) in enumerate(lay):
            conn, table = ent_tables[kind]
            for c in range(nt):
                ent = conn[a, c] if kind != 'interior' else c
                ok_tab &= bool(table[k, ent] == ed[i, c])
        h.concrete('per-entity tables agree with the per-cell numbering', ok_tab)
        # sharing: the cells that reference g are exactly the cells that contain the entity g is attached to
        for kind, (conn, table) in ent_tables.items():
            if table is None or table.size == 0:
                continue
            for ent in range(table.shape[1]):
                cells_with_ent = set(np.nonzero((conn == ent).any(axis=0))[0].tolist()) if kind != 'interior' else {ent}
                for k in range(table.shape[0]):
                    g = table[k, ent]
                    cells_ref = set(np.nonzero((ed == g).any(axis=0))[0].tolist())
                    ok_share &= (cells_ref == cells_with_ent) if cells_with_ent else (not cells_ref)
        h.concrete('a number is referenced by exactly the cells containing its entity (interior: one cell)', ok_share)
        # every number belongs to exactly one table slot
        allnums = np.concatenate([tb.ravel() for _, tb in ent_tables.values() if tb is not None and tb.size])
        h.concrete('every number is attached to exactly one entity', sorted(allnums.tolist()) == list(range(N)))
    # ---- (i)/(ii) geometric formulation -----------------------------------------------------------------------------
    D = np.asarray(getattr(e, 'doflocs', np.zeros((0, dim))), dtype=float)
    # DOF names are listed per kind in the order nodal, facet, edge, interior
    dn = list(e.dofnames)
    off = {'nodal': 0, 'facet': e.nodal_dofs, 'edge': e.nodal_dofs + e.facet_dofs,
           'interior': e.nodal_dofs + e.facet_dofs + (e.edge_dofs if dim == 3 else 0)}
    names = [dn[off[kind] + k] if off[kind] + k < len(dn) else '?' for (kind, a, k) in lay] if len(lay) == Nb else ['?'] * Nb
    has_locs = D.shape[0] == Nb and not np.isnan(D).any()
    if hasattr(e, 'doflocs'):
        h.concrete('reference DOF location table has one row per local DOF', D.shape[0] == Nb, '%d rows, %d local DOFs' % (D.shape[0], Nb))
    if has_locs:
        with warnings.catch_warnings():
            warnings.simplefilter('ignore')
            loc = m._mapping().F(D.T)           # (dim, nt, Nb) through the real mapping
        first = {}
        if len(lay) == Nb:
            # a nodal DOF sits at its vertex
            for i, (kind, a, k) in enumerate(lay):
                if kind == 'nodal':
                    for c in range(nt):
                        h.equal('local DOF %d of cell %d sits at vertex %d' % (i, c, t[a, c]), np.asarray(loc[:, c, i]), np.asarray(m.doflocs[:, t[a, c]]))
        for c in range(nt):
            for i in range(Nb):
                g = int(ed[i, c])
                if g not in first:
                    first[g] = (c, i)
                    h.equal('doflocs[%d] is the mapped location' % g, np.asarray(basis.doflocs[:, g]), np.asarray(loc[:, c, i]))
                else:
                    c0, i0 = first[g]
                    h.equal('number %d: cells %d/%d agree on the location' % (g, c0, c), np.asarray(loc[:, c, i]), np.asarray(loc[:, c0, i0]))
                    h.concrete('number %d: cells %d/%d agree on the DOF name' % (g, c0, c), names[i] == names[i0])
        if not is_dg:
            # duplicates inside the reference element (same name, same reference location) make (ii) meaningless
            dup = any(names[i] == names[j] and np.allclose(D[i], D[j]) for i in range(Nb) for j in range(i))
            if not dup:
                gl = sorted(first)
                for a_ in range(len(gl)):
                    for b_ in range(a_):
                        ga, gb = gl[a_], gl[b_]
                        (ca, ia), (cb, ib) = first[ga], first[gb]
                        if names[ia] != names[ib]:
                            continue
                        d = np.asarray(loc[:, ca, ia]) - np.asarray(loc[:, cb, ib])
                        if h.sym_mode:
                            h.nonzero_somewhere('numbers %d and %d sit at different points' % (gb, ga), sum(x * x for x in d))
                        else:
                            h.concrete('numbers %d and %d sit at different points' % (gb, ga), float(np.abs(np.asarray(d, dtype=float)).max()) > 1e-12)
    # ---- (iv) locality through the real COO bookkeeping ------------------------------------------------------------------
    dt = object if h.sym_mode else np.float64
    F = S.BilinearForm(lambda u, v, w: u * v, dtype=dt)
    cnt = [0]

    def kernel(u, v, w, dx):
        cnt[0] += 1
        if h.sym_mode:
            return np.array([Sym(z3.Real('k_%d_%d' % (cnt[0], c))) for c in range(nt)], dtype=object)
        return 1.0 + np.arange(nt) * 0.5 + 0.01 * cnt[0]
    F._kernel = kernel
    (rows, cols), data, shape, lshape = F._assemble(basis)
    h.concrete('shape == (N_test, N_trial)', tuple(int(x) for x in shape) == (N, N))
    h.concrete('triplet count == Nbfun^2 * cells', len(data) == Nb * Nb * nt and cnt[0] == Nb * Nb)
    share = np.zeros((N, N), dtype=bool)
    for c in range(nt):
        share[np.ix_(ed[:, c], ed[:, c])] = True
    A = np.zeros((N, N), dtype=object if h.sym_mode else float)
    for r, c_, d in zip(rows, cols, data):
        A[r, c_] = A[r, c_] + d
    bad = []
    nzchecked = 0
    for i in range(N):
        for j in range(N):
            if share[i, j]:
                if h.sym_mode:
                    if nzchecked < 40 or (i + 3 * j) % 7 == 0:
                        h.nonzero_somewhere('entry (%d,%d) receives a contribution' % (i, j), A[i, j])
                        nzchecked += 1
                elif A[i, j] == 0:
                    bad.append((i, j))
            else:
                h.zero('entry (%d,%d) is identically zero' % (i, j), A[i, j])
    if not h.sym_mode:
        h.concrete('entries of DOFs sharing a cell receive contributions', not bad, str(bad[:5]))


def derived_basis_config(h, mesh, spec1, spec2, free=None):
    """Bases derived from an existing one (with_element, with_elements, boundary, FacetBasis.with_element) carry the numbering of a
    basis built from scratch for the same (mesh, element): same per-cell table, same N, same entity tables, same DOF locations."""
    import skfem as S
    with warnings.catch_warnings():
        warnings.simplefilter('ignore')
        m = make_mesh(h, mesh, free=free)
        e1, e2 = make_elem(spec1), make_elem(spec2)
        b1 = S.CellBasis(m, e1, intorder=2)
        t_ = h.sym('t', ())
        h.zero('trivial', t_ - t_)
        h.sample(dict(mesh=mesh, first=spec1, second=spec2))

        def same(tag, got, want):
            ok = int(got.N) == int(want.N) and np.array_equal(np.asarray(got.element_dofs), np.asarray(want.element_dofs))
            for nm in ('nodal_dofs', 'facet_dofs', 'edge_dofs', 'interior_dofs'):
                ok = ok and np.array_equal(np.asarray(getattr(got.dofs, nm)), np.asarray(getattr(want.dofs, nm)))
            h.concrete('%s: N, per-cell table and entity tables == basis built from scratch' % tag, ok,
                       'N %s vs %s, table %s vs %s' % (got.N, want.N, np.shape(got.element_dofs), np.shape(want.element_dofs)))
            if ok and want.doflocs is not None:
                h.concrete('%s: DOF locations available' % tag, got.doflocs is not None)
                if got.doflocs is not None:
                    h.equal('%s: DOF locations' % tag, np.asarray(got.doflocs), np.asarray(want.doflocs))
        fresh2 = S.CellBasis(m, make_elem(spec2), intorder=2)
        same('with_element', b1.with_element(e2), fresh2)
        same('with_element back', b1.with_element(e2).with_element(make_elem(spec1)), S.CellBasis(m, make_elem(spec1), intorder=2))
        sel = np.array([m.t.shape[1] - 1], dtype=np.int32)
        same('with_elements + with_element', b1.with_elements(sel).with_element(e2), S.CellBasis(m, make_elem(spec2), intorder=2, elements=sel))
        fb = b1.boundary()
        same('boundary().with_element', fb.with_element(e2), S.FacetBasis(m, make_elem(spec2), intorder=2))


def kind_of(mesh):
    for k, v in MESHES.items():
        if mesh in v:
            return k


def all_leaf(kind):
    import skfem.element as E
    rd = dict(line='RefLine', tri='RefTri', quad='RefQuad', tet='RefTet', hex='RefHex', wedge='RefWedge')[kind]
    out = []
    for n in E.__all__:
        c = getattr(E, n)
        r = getattr(c, 'refdom', None)
        if n.startswith('Element') and r is not None and r.__name__ == rd and n not in ('ElementLinePp', 'ElementQuadP', 'ElementHexC1'):
            out.append(n)
    return out


def build_configs(tier, seed):
    quick = tier == 'quick'
    cfgs = []
    for kind, meshes in MESHES.items():
        for mi, mesh in enumerate(meshes[:2] if quick else meshes):
            specs = list(ELEMS[kind])
            if mi == 0:
                specs += [n for n in all_leaf(kind) if n not in specs]     # every exported leaf class on the first mesh
            for spec in specs:
                heavy = any(x in spec for x in ('Argyris', 'P4', 'Hex2', 'QuadP', 'RT2'))
                if quick and heavy and mesh != meshes[0]:
                    continue
                free = None
                mesh_ = mesh
                if any(x in spec for x in ('Morley', 'Argyris', 'TriHermite', 'TriP1G', 'TriP2G', '15Param')):
                    # exact Vandermonde inverse needs rational unit normals: Heronian cells, numeric geometry
                    free = 'none'
                    if mesh != meshes[0]:
                        continue
                    mesh_ = 'tri2heron'
                if 'LineHermite' in spec or spec in ('ElementQuadBFS', 'ElementQuad2G'):
                    free = 'none'        # globally defined: numeric geometry (exact Vandermonde inverse)
                if kind == 'wedge':
                    free = 'none'
                if kind == 'hex':
                    # G(1)/G(2): one or two free vertices, the rest generic rationals (quick: only three classes symbolic,
                    # the others numeric - a hexahedral basis with symbolic geometry costs ~4 min to tabulate)
                    free = ([0] if spec in ('ElementHex1', 'ElementHexS2', 'ElementHexRT1') else 'none') if quick else [0, 5]
                    if quick and ('Hex2' in spec or 'Composite' in spec):
                        continue
                cfgs.append(dict(name='%s/%s%s' % (mesh_, spec.replace(' ', ''), '' if free is None else '/free=%s' % (free if isinstance(free, str) else ','.join(map(str, free)))), fn=dofs_config, kw=dict(mesh=mesh_, spec=spec, free=free),
                                 opts=dict(timeout=600 if quick else 2400)))
    # derived bases
    for mesh, s1, s2, free in [('tet2', 'ElementTetP1', 'ElementTetP2', 'none'), ('tet2', 'ElementTetP2', 'ElementTetP1', 'none'),
                               ('tri2', 'ElementTriP1', 'ElementTriP2', None), ('tri2', 'ElementTriP2', 'ElementTriCR', None),
                               ('hex2', 'ElementHex1', 'ElementHexS2', 'none'), ('tet2', 'ElementTetRT1', 'ElementTetN1', 'none'),
                               ('tet2', 'ElementTetN1', 'ElementTetP0', 'none'), ('quad2', 'ElementQuad1', 'ElementQuad2', 'none'),
                               ('line3perm', 'ElementLineP1', 'ElementLineP2', None)]:
        cfgs.append(dict(name='derived/%s/%s->%s' % (mesh, s1, s2), fn=derived_basis_config, kw=dict(mesh=mesh, spec1=s1, spec2=s2, free=free),
                         opts=dict(timeout=600)))
    return cfgs


META = dict(
    explanation='Real Dofs/CellBasis construction on meshes with SYMBOLIC vertex coordinates.  z3 decides (i) every two (cell, local index) '
                'pairs that carry the same global number map their reference DOF location to the same physical point for ALL geometries '
                '(so a number is shared only along a shared entity) and basis.doflocs holds that point; (ii) two different numbers with '
                'the same DOF name are at different points for SOME geometry (so an entity is not numbered twice); (iv) with one fresh '
                'symbol per local-matrix entry pushed through the real COO bookkeeping, assembled entry (i,j) is identically zero iff '
                'i and j share no cell.  Gap-free range, sharing pattern vs. entity incidence and table agreement are read off concretely.',
    symbolic='vertex coordinates; one symbol per (local pair, cell) kernel value',
    bounds=dict(meshes='2-4 cell meshes of each class incl. renumbered variants', elements='see configuration names (Lagrange, bubble, C1, '
                       'H(div)/H(curl) with DOF locations, vector, composite, DG)'),
    outside=['elements whose doflocs are not defined (NaN) get only (iii) and (iv); their sharing is covered by the trace characterisation in C03/C07',
             'meshes beyond the zoo'],
    stubs=['BilinearForm._kernel -> fresh symbols (locality obligation only)'],
    assumptions=['mesh validity (non-degenerate cells)'],
    design_ref='DESIGN.md 4/C04',
)

if __name__ == '__main__':
    sys.exit(harness.main('C04', 'checks.c04', build_configs, META))
