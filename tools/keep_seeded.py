#!/usr/bin/env python3
"""Copies confirmed seeded mutants into /verif/seeded/<prop>-<k>/ (patch.diff, demo.py, notes.md, meta.json)."""
import json, os, re, shutil, sys, glob
SRC = '/tmp/seedout'; EV = '/tmp/ev'
os.makedirs('/verif/seeded', exist_ok=True)
for suite in sorted(glob.glob(EV + '/suite/*.txt')):
    base = os.path.basename(suite)[:-4]
    prop, k = base.split('_')
    batch = 1
    pid = prop
    if prop.endswith('b'):
        pid, batch = prop[:-1], (3 if prop[:-1] in ('C02', 'C04', 'C05', 'C06', 'C08', 'C09', 'C12', 'C16', 'C20') else 2)
    txt = open(suite).read()
    confirmed = 'demo-on-mutant rc=1' in txt and 'demo-on-clean rc=0' in txt and '536 passed' in txt and 'failed' not in txt
    if not confirmed:
        print('NOT confirmed', base, txt.replace('\n', ' ')[:160]); continue
    d = '/verif/seeded/%s-%s%s' % (pid, 'b' if batch > 1 else '', k)
    os.makedirs(d, exist_ok=True)
    shutil.copy('%s/%s/mutant%s.diff' % (SRC, prop, k), d + '/patch.diff')
    shutil.copy('%s/%s/demo%s.py' % (SRC, prop, k), d + '/demo.py')
    notes = open('%s/%s/notes%s.md' % (SRC, prop, k)).read()
    open(d + '/notes.md', 'w').write(notes)
    det = {}
    res = EV + '/results/%s_%s.txt' % (prop, k)
    if os.path.exists(res):
        for line in open(res):
            m = re.match(r'check (C\d+) rc=(\d+)\s+(\d+) violations; first:\s*(.*)', line)
            if m:
                det[m.group(1)] = dict(exit=int(m.group(2)), violations=int(m.group(3)), first=m.group(4).strip()[:300])
    first = json.load(open('/verif/seeded/first_eval.json')) if os.path.exists('/verif/seeded/first_eval.json') else {}
    meta = dict(property=pid, mutant=int(k), batch=batch, caught_by_the_checks_as_they_were_when_it_was_produced=first.get('%s_%s' % (prop, k)), files=dict(patch='patch.diff', demonstration='demo.py', notes='notes.md'),
                needs_to_manifest=' '.join(notes.split('\n')[0:12])[:900],
                confirmed=dict(how='scratch worktree of /repo HEAD (outside /repo and /verif): git apply patch.diff; PYTHONPATH=<worktree> /venv/bin/python demo.py; '
                                   'PYTHONPATH=/repo /venv/bin/python demo.py; full suite: /venv/bin/python -m pytest -q -p no:cacheprovider --timeout=900 --deselect tests/test_mamba.py',
                               demo_on_mutant_exit=1, demo_on_clean_exit=0, suite=txt.strip().split('\n')[-1][:120]),
                origin='independent sub-agent given only the property text and its own worktree',
                detection=det)
    json.dump(meta, open(d + '/meta.json', 'w'), indent=1)
    print('kept', d, {k_: v['exit'] for k_, v in det.items()})
