"""C18 (part) - mesh surgery keeps geometry valid and carries tags to the same entities.

Symbolic: ALL vertex coordinates (they double as tracers: a coordinate term names the old vertex it came from), translation vector,
scale factors, mirror normal and point.
Real code: Mesh.restrict/_reix/remove_elements/remove_unused_nodes, MeshQuad1.to_meshtri (both styles), scaled/translated/mirrored/
morphed, oriented, MeshTri1 * MeshLine1 extrusion.
Outside: __add__/__matmul__/remove_duplicate_nodes (they merge vertices through a byte-wise np.unique on coordinates).
"""
import itertools
import sys
import warnings

import numpy as np

from engine import harness
from engine.sym import Sym, tosym
from engine.symnp import det_obj
from engine.zoo import make_mesh, topo, simplex_det
from checks.c12 import weights_of, support, cell_measure
from checks.c03 import renumbered


def vid(h, x, lookup):
    """old vertex id named by a coordinate term (symbolic mode: the variable; float mode: nearest value)."""
    if h.sym_mode:
        return lookup.get(tosym(x).a.get_id(), -1)
    return lookup(float(x))


def tracer_lookup(h, P):
    if h.sym_mode:
        return {tosym(P[0, v]).a.get_id(): v for v in range(P.shape[1])}
    vals = np.asarray(P[0], dtype=float)
    return lambda x: int(np.argmin(np.abs(vals - x))) if np.min(np.abs(vals - x)) < 1e-12 else -1


def tagged(m, sub, bnd):
    if sub:
        m = m.with_subdomains({n: np.array(v, dtype=np.int32) for n, v in sub.items()})
    if bnd:
        m = m.with_boundaries({n: np.array(v, dtype=np.int32) for n, v in bnd.items()})
    return m


def restrict_config(h, mesh, selections, sub=None, bnd=None, pt=None):
    with warnings.catch_warnings():
        warnings.simplefilter('ignore')
        m0 = make_mesh(h, mesh, pt=pt)
        m = tagged(m0, sub, bnd)
        P, t = m.doflocs, np.asarray(m.t)
        fac = np.asarray(m.facets)
        look = tracer_lookup(h, P)
        snap = (np.array(P, copy=True), t.copy(), {k: np.array(v) for k, v in (m.subdomains or {}).items()},
                {k: np.array(v) for k, v in (m.boundaries or {}).items()})
        h.sample(dict(mesh=mesh, selections=[list(map(int, s)) for s in selections], subdomains=sub, boundaries=bnd))
        for sel in selections:
            sel = np.array(sel, dtype=np.int32)
            tag = 'cells=%s' % ','.join(map(str, sel))
            M, ix = m.restrict(sel, return_mapping=True)
            PM, tM = M.doflocs, np.asarray(M.t)
            h.concrete('%s: cell count' % tag, tM.shape[1] == len(sel))
            # index map relates new to old numbering
            for j in range(PM.shape[1]):
                h.zero('%s: new vertex %d has the coordinates of old vertex ix[%d]' % (tag, j, j), np.asarray(PM[:, j]) - np.asarray(P[:, ix[j]]))
            # new cell k has, slot by slot, the vertices of old cell sel[k]
            for k in range(tM.shape[1]):
                for a in range(tM.shape[0]):
                    h.zero('%s: cell %d slot %d == old cell %d slot %d' % (tag, k, a, sel[k], a), np.asarray(PM[:, tM[a, k]]) - np.asarray(P[:, t[a, sel[k]]]))
            h.concrete('%s: no unused vertices' % tag, sorted(set(tM.ravel().tolist())) == list(range(PM.shape[1])))
            # subdomains designate the same cells; tags of removed cells disappear
            if sub:
                for name, ixs in m.subdomains.items():
                    want = sorted(k for k in range(len(sel)) if sel[k] in set(np.asarray(ixs).tolist()))
                    got = sorted(np.asarray(M.subdomains[name]).tolist()) if M.subdomains is not None and name in M.subdomains else None
                    h.concrete('%s: subdomain "%s" designates the same cells' % (tag, name), got == want, 'got %s want %s' % (got, want))
            if bnd:
                facM = np.asarray(M.facets)
                kept_old_facets = set(np.unique(np.asarray(m.t2f)[:, sel]).tolist())
                for name, ixs in m.boundaries.items():
                    want = sorted(tuple(sorted(fac[:, f].tolist())) for f in np.asarray(ixs).tolist() if f in kept_old_facets)
                    if M.boundaries is None or name not in M.boundaries:
                        got = None
                    else:
                        got = sorted(tuple(sorted(int(ix[v]) for v in facM[:, f])) for f in np.asarray(M.boundaries[name]).tolist())
                    h.concrete('%s: boundary "%s" designates the same facets' % (tag, name), got == want, 'got %s want %s' % (got, want))
            # remove_elements(complement) is the same mesh
            comp = np.setdiff1d(np.arange(t.shape[1]), sel).astype(np.int32)
            if len(comp) and np.array_equal(sel, np.sort(sel)):
                R = m.remove_elements(comp)
                h.concrete('%s: remove_elements(complement) has the same connectivity' % tag, np.array_equal(np.asarray(R.t), tM))
                h.equal('%s: remove_elements(complement) has the same coordinates' % tag, np.asarray(R.doflocs), np.asarray(PM))
        # equivalent ways of naming the cells (subdomain name, list of names, predicate-free index list) and the skip flags
        def same_mesh(tag_, A_, B_, tags=True):
            ok_ = np.array_equal(np.asarray(A_.t), np.asarray(B_.t)) and np.asarray(A_.doflocs).shape == np.asarray(B_.doflocs).shape
            h.concrete('%s: same connectivity' % tag_, ok_)
            if ok_:
                h.equal('%s: same coordinates' % tag_, np.asarray(A_.doflocs), np.asarray(B_.doflocs))
            if tags:
                for attr in ('subdomains', 'boundaries'):
                    a_, b_ = getattr(A_, attr), getattr(B_, attr)
                    h.concrete('%s: same %s' % (tag_, attr), (a_ is None) == (b_ is None) and (a_ is None or (sorted(a_) == sorted(b_) and all(
                        np.array_equal(np.asarray(a_[k_]), np.asarray(b_[k_])) for k_ in a_))))
        if sub:
            nm0 = sorted(sub)[0]
            by_ix = m.restrict(np.asarray(m.subdomains[nm0]).astype(np.int32))
            same_mesh('restrict("%s") == restrict(its index array)' % nm0, m.restrict(nm0), by_ix)
            R1 = m.restrict(nm0, skip_boundaries=True)
            same_mesh('skip_boundaries', R1, by_ix, tags=False)
            h.concrete('skip_boundaries drops the boundary names and keeps the subdomain names', R1.boundaries is None and
                       (by_ix.subdomains is None or (R1.subdomains is not None and sorted(R1.subdomains) == sorted(by_ix.subdomains)
                                                     and all(np.array_equal(np.asarray(R1.subdomains[k_]), np.asarray(by_ix.subdomains[k_])) for k_ in R1.subdomains))))
            R2 = m.restrict(nm0, skip_subdomains=True)
            same_mesh('skip_subdomains', R2, by_ix, tags=False)
            h.concrete('skip_subdomains drops the subdomain names and keeps the boundary names', R2.subdomains is None and
                       (by_ix.boundaries is None or (R2.boundaries is not None and sorted(R2.boundaries) == sorted(by_ix.boundaries)
                                                     and all(np.array_equal(np.asarray(R2.boundaries[k_]), np.asarray(by_ix.boundaries[k_])) for k_ in R2.boundaries))))
            same_mesh('remove_elements("%s") == restrict(complement)' % nm0, m.remove_elements(nm0),
                      m.restrict(np.setdiff1d(np.arange(t.shape[1]), np.asarray(m.subdomains[nm0])).astype(np.int32)))
        # operand untouched
        ok = np.array_equal(np.asarray(m.t), snap[1]) and all(np.array_equal(m.subdomains[k], v) for k, v in snap[2].items()) \
            and all(np.array_equal(m.boundaries[k], v) for k, v in snap[3].items())
        ok = ok and all((a is b) or (h.sym_mode and tosym(a).a.eq(tosym(b).a)) or (not h.sym_mode and a == b) for a, b in zip(np.asarray(m.doflocs).ravel(), snap[0].ravel()))
        h.concrete('operand unchanged', ok)


def join_config(h, mesh, split, op='add'):
    """Joining meshes (m1 + m2, m1 @ m2) and dropping duplicate vertices: the joined mesh has every cell of both operands, slot by slot
    at the operands' coordinates, and exactly one vertex per distinct point (shared interface vertices merged, nothing else)."""
    import skfem as S
    with warnings.catch_warnings():
        warnings.simplefilter('ignore')
        if h.sym_mode:
            from engine import stubs_misc
            stubs_misc.install_row_unique(h)
            h.note('assumption: vertex coordinates are multiples of 1e-8 (Mesh.__add__ rounds to 8 decimals; modelled as the identity)')
        m = make_mesh(h, mesh)
        P, t = m.doflocs, np.asarray(m.t)
        A, B = [int(c) for c in split[0]], [int(c) for c in split[1]]
        mA = m.restrict(np.array(A, dtype=np.int32))
        mB = m.restrict(np.array(B, dtype=np.int32))
        h.sample(dict(mesh=mesh, first=A, second=B, operation=op))
        snapA = np.array(mA.doflocs, copy=True)
        if op == 'add':
            J = mA + mB
            parts = [(J, 0, mA), (J, len(A), mB)]
            cellsJ = np.asarray(J.t)
            h.concrete('cell count', cellsJ.shape[1] == len(A) + len(B))
            PJ = J.doflocs
        elif op == 'matmul':
            JA, JB = mA @ mB
            h.concrete('two meshes on ONE vertex table', JA.doflocs.shape == JB.doflocs.shape)
            h.equal('same vertex table', np.asarray(JA.doflocs), np.asarray(JB.doflocs))
            parts = [(JA, 0, mA), (JB, 0, mB)]
            PJ = JA.doflocs
        else:
            # duplicate copies of every vertex, one per operand, then remove_duplicate_nodes
            pd = np.hstack((np.asarray(mA.doflocs), np.asarray(mB.doflocs)))
            td = np.hstack((np.asarray(mA.t), np.asarray(mB.t) + mA.doflocs.shape[1]))
            D = type(m)(pd, td, validate=False) if 'validate' in type(m).__dataclass_fields__ else type(m)(pd, td)
            J = D.remove_duplicate_nodes()
            parts = [(J, 0, mA), (J, len(A), mB)]
            PJ = J.doflocs
        distinct = sorted(set(int(v) for c in A + B for v in t[:, c]))
        h.concrete('one vertex per distinct point of the operands', PJ.shape[1] == len(distinct), '%d vs %d' % (PJ.shape[1], len(distinct)))
        # which ORIGINAL vertex sits at a joined vertex (the first coordinate doubles as a tracer; all coordinates are then compared)
        look = tracer_lookup(h, P)

        if h.sym_mode:
            # (Mesh.__add__ rounds: the joined coordinates are new terms; they are matched at a witness point of the path and the
            #  match is then PROVED for all values by the coordinate obligations below)
            from engine import zeval
            env = h.ex.witness_env()
            if env is None:
                from fractions import Fraction as _Fr
                env = {k_: _Fr(float(v_)) for k_, v_ in h.ex.vars.items()}      # the nominal point (this configuration follows the nominal path)
            val = lambda s_: (tosym(s_).c if tosym(s_).c is not None else zeval.eval_exact(tosym(s_).a, env))
            orig_vals = [tuple(val(P[d, v]) for d in range(P.shape[0])) for v in range(P.shape[1])]

        def origin(Pm, j):
            if h.sym_mode:
                key = tuple(val(Pm[d, j]) for d in range(P.shape[0]))
                return orig_vals.index(key) if key in orig_vals else -1
            return look(float(Pm[0, j]))
        for (Jm, off, src), cells_src in zip(parts, (A, B)):
            tj = np.asarray(Jm.t)
            for k, c_old in enumerate(cells_src):
                org = [origin(Jm.doflocs, int(v)) for v in tj[:, off + k]]
                # simplices are re-sorted by the constructor, quadrilaterals / hexahedra keep their local order
                if m.refdom.__name__ in ('RefQuad', 'RefHex'):
                    okc = org == [int(v) for v in t[:, c_old]]
                else:
                    okc = sorted(org) == sorted(int(v) for v in t[:, c_old])
                h.concrete('cell %d of the joined mesh has the vertices of cell %d of the original' % (off + k, c_old), okc, '%s vs %s' % (org, t[:, c_old].tolist()))
                for a, v in enumerate(tj[:, off + k]):
                    if org[a] >= 0:
                        h.zero('cell %d slot %d sits at the coordinates of original vertex %d' % (off + k, a, org[a]),
                               np.asarray(Jm.doflocs[:, int(v)]) - np.asarray(P[:, org[a]]))
        # merged interface: every original vertex occurs once in the joined table
        orgs = [origin(PJ, j) for j in range(PJ.shape[1])]
        h.concrete('every distinct point of the operands occurs exactly once in the joined vertex table', sorted(orgs) == distinct, str(orgs))
        h.concrete('operand coordinates unchanged', all((x is y) or (h.sym_mode and tosym(x).a.eq(tosym(y).a)) or (not h.sym_mode and x == y)
                                                        for x, y in zip(np.asarray(mA.doflocs).ravel(), snapA.ravel())))


def unused_config(h, mesh):
    """remove_unused_nodes after vertices were orphaned."""
    import skfem as S
    with warnings.catch_warnings():
        warnings.simplefilter('ignore')
        m = make_mesh(h, mesh)
        P, t = m.doflocs, np.asarray(m.t)
        # keep only the last cell but all vertices: several vertices become unused
        M0 = type(m)(P, t[:, -1:])
        M = M0.remove_unused_nodes()
        h.concrete('only used vertices remain', M.doflocs.shape[1] == len(set(t[:, -1].tolist())))
        for a in range(t.shape[0]):
            h.zero('slot %d keeps its coordinates' % a, np.asarray(M.doflocs[:, np.asarray(M.t)[a, 0]]) - np.asarray(P[:, t[a, -1]]))


def transform_config(h, mesh, pt=None, sub=None, bnd=None):
    with warnings.catch_warnings():
        warnings.simplefilter('ignore')
        m = tagged(make_mesh(h, mesh, pt=pt), sub, bnd)
        P, t = m.doflocs, np.asarray(m.t)
        dim = P.shape[0]
        kind = {'MeshTri1': 'tri', 'MeshTet1': 'tet', 'MeshQuad1': 'quad', 'MeshLine1': 'line', 'MeshHex1': 'hex'}[type(m).__name__]
        snapP = np.array(P, copy=True)
        h.sample(dict(mesh=mesh, operations=['translated', 'scaled', 'mirrored', 'morphed', 'oriented']))

        def same_topology(tag, M):
            okk = np.array_equal(np.asarray(M.t), t) and type(M) is type(m)
            if sub:
                okk = okk and all(np.array_equal(M.subdomains[k], m.subdomains[k]) for k in m.subdomains)
            if bnd:
                okk = okk and all(np.array_equal(M.boundaries[k], m.boundaries[k]) for k in m.boundaries)
            h.concrete('%s: connectivity and tags untouched' % tag, okk)
        d = h.sym('d', (dim,), nominal=np.array([0.375, -0.625, 1.125])[:dim])
        M = m.translated(tuple(d))
        same_topology('translated', M)
        h.equal('translated: p + d', np.asarray(M.doflocs), np.array([[P[i, v] + d[i] for v in range(P.shape[1])] for i in range(dim)],
                                                                      dtype=object if h.sym_mode else float))
        f = h.sym('f', (dim,), nominal=np.array([1.5, 0.75, 2.25])[:dim])
        M = m.scaled(tuple(f))
        same_topology('scaled', M)
        h.equal('scaled: f * p', np.asarray(M.doflocs), np.array([[P[i, v] * f[i] for v in range(P.shape[1])] for i in range(dim)],
                                                                   dtype=object if h.sym_mode else float))
        # morphed with one function per coordinate: every function sees the ORIGINAL coordinates
        funs = [(lambda p, i=i: p[(i + 1) % dim] * 2 + p[i] * p[i]) for i in range(dim)]
        M = m.morphed(*funs)
        same_topology('morphed', M)
        h.equal('morphed: p_i = f_i(original p)', np.asarray(M.doflocs),
                np.array([[funs[i](P[:, v]) for v in range(P.shape[1])] for i in range(dim)], dtype=object if h.sym_mode else float))
        M = m.morphed(None, funs[1]) if dim > 1 else m.morphed(funs[0])
        if dim > 1:
            h.equal('morphed(None, f): first coordinate untouched', np.asarray(M.doflocs[0]), np.asarray(P[0]))
        # mirrored: reflection (involution, |det| preserved); normal and point symbolic
        if dim > 1 and kind in ('tri', 'tet'):
            n = h.sym('n', (dim,), nominal=np.array([0.6, 0.8, 0.0])[:dim] if dim == 2 else np.array([2.0 / 3, 1.0 / 3, 2.0 / 3]))
            p0 = h.sym('c', (dim,), nominal=np.array([0.125, -0.25, 0.5])[:dim])
            if h.sym_mode:
                h.assume(sum(x * x for x in n) > 0)
            M = m.mirrored(tuple(n), tuple(p0))
            same_topology('mirrored', M)
            nn = sum(x * x for x in n)
            for v in range(P.shape[1]):
                dotv = sum(n[i] * (P[i, v] - p0[i]) for i in range(dim))
                for i in range(dim):
                    # p - 2 (n.(p-p0)) n / |n|^2   (root-free form of the reflection)
                    h.zero('mirrored: vertex %d [%d] is the reflection' % (v, i), (M.doflocs[i, v] - P[i, v]) * nn + 2 * dotv * n[i])
            for k in range(t.shape[1]):
                a, b = simplex_det(M.doflocs, t[:, k]), simplex_det(P, t[:, k])
                h.zero('mirrored: cell %d keeps its measure and changes orientation' % k, a + b)
        # oriented: every determinant positive afterwards (forks on the signs)
        if kind in ('tri', 'tet'):
            O = m.oriented()
            for k in range(t.shape[1]):
                h.valid('oriented: cell %d has a positive determinant' % k, simplex_det(O.doflocs, np.asarray(O.t)[:, k]) > 0, kinds=('nlsat', 'default'))
                h.concrete('oriented: cell %d keeps its vertex set' % k, set(np.asarray(O.t)[:, k].tolist()) == set(t[:, k].tolist()))
        ok = all((a is b) or (h.sym_mode and tosym(a).a.eq(tosym(b).a)) or (not h.sym_mode and a == b) for a, b in zip(np.asarray(m.doflocs).ravel(), snapP.ravel()))
        h.concrete('operand coordinates unchanged', ok and np.array_equal(np.asarray(m.t), t))


def split_config(h, mesh, style, pt=None, sub=None, bnd=None):
    """MeshQuad1.to_meshtri: triangles inside their parent quadrilateral, areas add up, tags carried."""
    with warnings.catch_warnings():
        warnings.simplefilter('ignore')
        m = tagged(make_mesh(h, mesh, pt=pt), sub, bnd)
        names = [tosym(x).a.decl().name() for x in m.doflocs.ravel()] if h.sym_mode else []
        P, t = m.doflocs, np.asarray(m.t)
        M = m.to_meshtri(style=style)
        h.sample(dict(mesh=mesh, style=style, subdomains=sub, boundaries=bnd))
        nv0 = P.shape[1]
        W = weights_of(h, P, M.doflocs, names, cells=t, refp=m.refdom.p)
        tM = np.asarray(M.t)
        nper = 4 if style == 'x' else 2
        h.concrete('triangle count', tM.shape[1] == nper * t.shape[1])
        parent = {}
        for c in range(tM.shape[1]):
            sup = frozenset().union(*[support(W, v) for v in tM[:, c]])
            cands = [K for K in range(t.shape[1]) if sup <= frozenset(t[:, K].tolist())]
            parent[c] = cands[0] if len(cands) == 1 else -1
        h.concrete('every triangle lies in exactly one quadrilateral', all(v >= 0 for v in parent.values()), str(parent))
        for K in range(t.shape[1]):
            ch = [c for c, q in parent.items() if q == K]
            quad = cell_measure(P, t[:, K], 'quad')
            tot = 0
            for c in ch:
                # triangles may be re-oriented by the constructor: add absolute values via the common sign with the parent
                a = simplex_det(M.doflocs, tM[:, c])
                sgn_same = bool(a * quad > 0)
                tot = tot + (a if sgn_same else -a)
            h.zero('areas of the triangles of quadrilateral %d add up to its area' % K, tot - quad)
            h.concrete('quadrilateral %d is split into %d triangles' % (K, nper), len(ch) == nper)
        if sub:
            for name, ixs in m.subdomains.items():
                want = sorted(c for c, q in parent.items() if q in set(np.asarray(ixs).tolist()))
                got = sorted(np.asarray(M.subdomains[name]).tolist()) if M.subdomains and name in M.subdomains else None
                h.concrete('subdomain "%s" == triangles of its quadrilaterals' % name, got == want, 'got %s want %s' % (got, want))
        if bnd:
            fac, facM = np.asarray(m.facets), np.asarray(M.facets)
            for name, ixs in m.boundaries.items():
                want = sorted(tuple(sorted(fac[:, f].tolist())) for f in np.asarray(ixs).tolist())
                got = None
                if M.boundaries and name in M.boundaries:
                    got = sorted(tuple(sorted(int(next(iter(support(W, v)))) if len(support(W, v)) == 1 else -1 for v in facM[:, f]))
                                 for f in np.asarray(M.boundaries[name]).tolist())
                h.concrete('boundary "%s" designates the same edges' % name, got == want, 'got %s want %s' % (got, want))


def extrude_config(h, order=(0, 1), commuted=False):
    """MeshTri1 * MeshLine1: one prism per (triangle, segment) between consecutive levels in INCREASING order, whatever the storage
    order of the line nodes (`order` lists the node indices from the lowest to the highest level)."""
    import skfem as S
    with warnings.catch_warnings():
        warnings.simplefilter('ignore')
        mt = make_mesh(h, 'tri1', var='p')
        n = len(order)
        nominal = np.zeros((1, n))
        for rank, node in enumerate(order):
            nominal[0, node] = 0.25 + 1.25 * rank
        z = h.sym('z', (1, n), nominal=nominal)
        ml = S.MeshLine1(z, np.array([[order[i] for i in range(n - 1)], [order[i + 1] for i in range(n - 1)]]))
        if h.sym_mode:
            for i in range(n - 1):
                h.assume(z[0, order[i]] < z[0, order[i + 1]])
        h.sample(dict(triangle='tri1', line_nodes_low_to_high=list(order)))
        W = (ml * mt) if commuted else (mt * ml)       # (line * triangle delegates to triangle * line)
        h.concrete('one prism per (triangle, segment)', np.asarray(W.t).shape == (6, n - 1))
        Pw, tw = W.doflocs, np.asarray(W.t)
        P = mt.doflocs
        # every prism: bottom face = the triangle at one level, top face = the same triangle (vertex by vertex) at the NEXT higher level;
        # every pair of consecutive levels is used by exactly one prism (the order of the prisms is not demanded)
        def same(a, b_):
            if h.sym_mode:
                return tosym(a).c == tosym(b_).c if tosym(a).c is not None and tosym(b_).c is not None else tosym(a).a.eq(tosym(b_).a)
            return float(a) == float(b_)
        used = []
        for i in range(tw.shape[1]):
            for a in range(3):
                for d in range(2):
                    h.zero('prism %d bottom vertex %d [%d]' % (i, a, d), Pw[d, tw[a, i]] - P[d, np.asarray(mt.t)[a, 0]])
                    h.zero('prism %d top vertex %d [%d]' % (i, a, d), Pw[d, tw[a + 3, i]] - P[d, np.asarray(mt.t)[a, 0]])
            zb, zt = Pw[2, tw[0, i]], Pw[2, tw[3, i]]
            h.concrete('prism %d: flat bottom and top faces' % i, all(same(Pw[2, tw[a, i]], zb) and same(Pw[2, tw[a + 3, i]], zt) for a in range(3)))
            lev = [r for r in range(n - 1) if same(zb, z[0, order[r]]) and same(zt, z[0, order[r + 1]])]
            h.concrete('prism %d spans two consecutive levels, bottom below top' % i, len(lev) == 1, 'levels matched: %s' % lev)
            used += lev
        h.concrete('every pair of consecutive levels is filled by exactly one prism', sorted(used) == list(range(n - 1)), str(used))


def extrude_line_config(h, orderx=(0, 1), ordery=(0, 1)):
    """MeshLine1 * MeshLine1: one quadrilateral per pair of consecutive x- and y-levels (levels in increasing order whatever the storage
    order of the nodes), corners exactly at the four level combinations, all cells with the same orientation."""
    import skfem as S
    with warnings.catch_warnings():
        warnings.simplefilter('ignore')
        def line(name, order):
            n = len(order)
            nominal = np.zeros((1, n))
            for rank, node in enumerate(order):
                nominal[0, node] = 0.25 + 1.25 * rank + (0.125 if name == 'y' else 0.0)
            z = h.sym(name, (1, n), nominal=nominal)
            if h.sym_mode:
                for i in range(n - 1):
                    h.assume(z[0, order[i]] < z[0, order[i + 1]])
            return z, S.MeshLine1(z, np.array([[order[i] for i in range(n - 1)], [order[i + 1] for i in range(n - 1)]]))
        x, mx = line('x', orderx)
        y, my = line('y', ordery)
        Q = mx * my
        h.sample(dict(x_nodes_low_to_high=list(orderx), y_nodes_low_to_high=list(ordery)))
        h.concrete('a quadrilateral mesh with one cell per pair of intervals', type(Q).__name__ == 'MeshQuad1' and np.asarray(Q.t).shape == (4, (len(orderx) - 1) * (len(ordery) - 1)))
        P, t = Q.doflocs, np.asarray(Q.t)

        def same(a, b_):
            if h.sym_mode:
                return tosym(a).a.eq(tosym(b_).a) if tosym(a).c is None or tosym(b_).c is None else tosym(a).c == tosym(b_).c
            return float(a) == float(b_)
        used = []
        signs = []
        for c in range(t.shape[1]):
            corners = [(P[0, v], P[1, v]) for v in t[:, c]]
            found = None
            for i in range(len(orderx) - 1):
                for j in range(len(ordery) - 1):
                    want = [(x[0, orderx[i + a]], y[0, ordery[j + b_]]) for a in (0, 1) for b_ in (0, 1)]
                    if all(any(same(cx, wx) and same(cy, wy) for (cx, cy) in corners) for (wx, wy) in want):
                        found = (i, j)
            h.concrete('cell %d has its corners at the four combinations of two consecutive x- and y-levels' % c, found is not None)
            used.append(found)
            area = cell_measure(P, t[:, c], 'quad')
            signs.append(area)
        h.concrete('every pair of intervals is filled by exactly one cell', sorted(u for u in used if u) == [(i, j) for i in range(len(orderx) - 1) for j in range(len(ordery) - 1)])
        for c in range(1, len(signs)):
            h.valid('cells 0 and %d have the same orientation and are non-degenerate' % c, signs[0] * signs[c] > 0, kinds=('nlsat', 'default'))
        if len(signs) == 1:
            h.valid('the cell is non-degenerate', signs[0] * signs[0] > 0, kinds=('nlsat', 'default'))


def to_meshtet_config(h, kind, ncells):
    """MeshHex1/MeshWedge1.to_meshtet on parallelepipeds / triangular prisms with symbolic origin and edge vectors: every tetrahedron
    uses vertices of one parent, the volumes add up to the parent's, the split is conforming (boundary triangle count)."""
    import skfem as S
    with warnings.catch_warnings():
        warnings.simplefilter('ignore')
        o = h.sym('o', (3,), nominal=np.array([0.125, -0.25, 0.375]))
        E = h.sym('e', (3, 3), nominal=np.array([[1.0, 0.125, 0.0625], [0.1875, 0.875, -0.125], [0.0625, 0.25, 1.125]]))
        if h.sym_mode:
            h.assume(tosym(det_obj(E)) != 0)
        if kind == 'hex':
            R = np.asarray(S.MeshHex1.elem.refdom.p, dtype=float)
            cells = [R] if ncells == 1 else [R, R + np.array([[1.0], [0.0], [0.0]])]
        else:
            R = np.asarray(S.MeshWedge1.elem.refdom.p, dtype=float)
            cells = [R] if ncells == 1 else [R, R + np.array([[0.0], [0.0], [1.0]])]
        pts = {}
        tcols = []
        for C in cells:
            col = []
            for a in range(C.shape[1]):
                key = tuple(C[:, a].tolist())
                if key not in pts:
                    pts[key] = len(pts)
                col.append(pts[key])
            tcols.append(col)
        keys = sorted(pts, key=lambda k_: pts[k_])
        P = np.empty((3, len(keys)), dtype=object if h.sym_mode else float)
        for j, key in enumerate(keys):
            for i in range(3):
                # x = o + E @ reference coordinates  (columns of E are the edge vectors)
                P[i, j] = o[i] + sum(E[i, k] * key[k] for k in range(3))
        t = np.array(tcols, dtype=np.int64).T
        m = (S.MeshHex1 if kind == 'hex' else S.MeshWedge1)(P, t)
        M = m.to_meshtet()
        tM = np.asarray(M.t)
        nper = 6 if kind == 'hex' else 3
        h.sample(dict(kind=kind, cells=ncells, tets=int(tM.shape[1])))
        h.concrete('tetrahedron count', tM.shape[1] == nper * ncells)
        h.concrete('coordinates untouched', M.doflocs.shape == P.shape and all((a is b) or (h.sym_mode and tosym(a).a.eq(tosym(b).a)) or (not h.sym_mode and a == b)
                                                                                for a, b in zip(np.asarray(M.doflocs).ravel(), P.ravel())))
        tv = np.asarray(m.t)
        dE = det_obj(E)
        for K in range(ncells):
            ch = [c for c in range(tM.shape[1]) if set(tM[:, c].tolist()) <= set(tv[:, K].tolist()) and
                  all(not (set(tM[:, c].tolist()) <= set(tv[:, K2].tolist())) for K2 in range(ncells) if K2 != K)]
            h.concrete('cell %d is split into %d tetrahedra' % (K, nper), len(ch) == nper, str(ch))
            tot = 0
            for c in ch:
                d = simplex_det(M.doflocs, tM[:, c])
                tot = tot + d * d           # compared through squares: |d| = |det E| / 6 * k_c is not constant per tet in general
            # volumes: sum of |det| == 6 vol(parent) = 6 |det E| (hex) or 3 |det E| (prism, half of the parallelepiped)
            s_ = 0
            for c in ch:
                d = simplex_det(M.doflocs, tM[:, c])
                s_ = s_ + (d if bool(d * dE > 0) else -d)
            h.zero('volumes of the tetrahedra of cell %d add up to its volume' % K, s_ - (6 if kind == 'hex' else 3) * dE)
        nbf = len(np.asarray(m.boundary_facets()))
        fcount = 0
        fm = np.asarray(m.facets)
        for f in np.asarray(m.boundary_facets()):
            fcount += 2 if len(set(fm[:, f].tolist())) == 4 else 1
        h.concrete('conforming split: boundary triangles == 2 per quadrilateral face + 1 per triangular face',
                   len(np.asarray(M.boundary_facets())) == fcount, '%d vs %d' % (len(np.asarray(M.boundary_facets())), fcount))


def trace_config(h, mesh):
    """Mesh.trace: the lower-dimensional mesh has, cell by cell and slot by slot, the vertices of the selected facets."""
    import skfem as S
    with warnings.catch_warnings():
        warnings.simplefilter('ignore')
        m = make_mesh(h, mesh)
        P = m.doflocs
        fac = np.asarray(m.facets)
        sel = np.asarray(m.boundary_facets())[::-1].copy()
        mtype = {2: S.MeshLine1, 3: S.MeshTri1}[P.shape[0]]
        tr, facets = m.trace(sel.astype(np.int32), mtype=mtype, project=lambda p: p[:1] if P.shape[0] == 2 else p[:2])
        h.concrete('returned facets == selection', np.array_equal(np.asarray(facets), sel))
        tt = np.asarray(tr.t)
        h.concrete('one cell per selected facet', tt.shape[1] == len(sel))
        for k in range(tt.shape[1]):
            got = {tosym(tr.doflocs[0, v]).a.get_id() if h.sym_mode else round(float(tr.doflocs[0, v]), 12) for v in tt[:, k]}
            want = {tosym(P[0, v]).a.get_id() if h.sym_mode else round(float(P[0, v]), 12) for v in fac[:, sel[k]]}
            h.concrete('trace cell %d has the vertices of facet %d' % (k, sel[k]), got == want)
        t_ = h.sym('t', ())
        h.zero('trivial', t_ - t_)


def composition_config(h, mesh, order):
    """restrict and refine composed in both orders: tags still designate the same regions (C12 obligations on each step)."""
    from checks.c12 import analyse
    with warnings.catch_warnings():
        warnings.simplefilter('ignore')
        m = tagged(make_mesh(h, mesh), {'s0': [0], 's1': [1]}, None)
        names = [tosym(x).a.decl().name() for x in m.doflocs.ravel()] if h.sym_mode else []
        h.sample(dict(mesh=mesh, order=order))
        if order == 'restrict-refine':
            mr = m.restrict(np.array([1, 0], dtype=np.int32))
            M = mr.refined(1)
            analyse(h, 'restrict;refine', mr, M, 1, names)
            h.concrete('names survive', sorted(M.subdomains) == ['s0', 's1'])
        else:
            M1 = m.refined(1)
            ch1 = np.asarray(M1.subdomains['s1'])
            M = M1.restrict(ch1.astype(np.int32))
            W, parent, children = analyse(h, 'refine', m, M1, 1, names)
            h.concrete('restricting the refined mesh to a named subdomain keeps exactly the children of its cells',
                       sorted(ch1.tolist()) == sorted(children[1]) and np.asarray(M.t).shape[1] == len(children[1]))
            h.concrete('the other name is emptied, not re-pointed', len(np.asarray(M.subdomains['s0'])) == 0 and
                       sorted(np.asarray(M.subdomains['s1']).tolist()) == list(range(len(children[1]))))


def cellsels(n, quick, rng):
    out = []
    for r in range(1, n + 1):
        for c in itertools.permutations(range(n), r):
            out.append(list(c))
    return out


def build_configs(tier, seed):
    quick = tier == 'quick'
    rng = np.random.RandomState(seed)
    cfgs = []

    def add(name, fn, **kw):
        opts = dict(timeout=kw.pop('timeout', 400 if quick else 2400))
        cfgs.append(dict(name=name, fn=fn, kw=kw, opts=opts))
    # restrict: ALL ordered selections (sorted and unsorted) of the cells of 3-cell meshes, tags on every cell / many facets
    sub3 = {'s%d' % i: list(c) for i, c in enumerate([c for r in range(1, 4) for c in itertools.combinations(range(3), r)])}
    sels3 = cellsels(3, quick, rng)
    for mesh, nf in (('tri3fan', 7), ('line3perm', 4)):
        bnd = {'b%d' % f: [f] for f in range(nf)}
        bnd['all'] = list(range(nf))
        for i in range(0, len(sels3), 5):
            add('restrict/%s/sel%d' % (mesh, i // 5), restrict_config, mesh=mesh, selections=sels3[i:i + 5], sub=sub3, bnd=bnd)
    sels2 = cellsels(2, quick, rng)
    for mesh, nf in (('quad2', 7), ('tet2', 7), ('tri2perm', 5)) + ((('hex2', 11),) if not quick else ()):
        bnd = {'b%d' % f: [f] for f in range(nf)}
        add('restrict/%s' % mesh, restrict_config, mesh=mesh, selections=sels2, sub={'s0': [0], 's1': [1], 's01': [0, 1]}, bnd=bnd)
    # joining meshes / merging duplicate vertices (nominal ordering of the points; see the stub note)
    for mesh, split in [('tri2', ([0], [1])), ('tri3fan', ([0, 1], [2])), ('quad2', ([1], [0])), ('tet2', ([0], [1])), ('line3perm', ([0, 2], [1])), ('hex2', ([1], [0]))]:
        for op in ('add', 'matmul', 'remove_duplicate_nodes'):
            cfgs.append(dict(name='join/%s/%s+%s/%s' % (mesh, ''.join(map(str, split[0])), ''.join(map(str, split[1])), op), fn=join_config,
                             kw=dict(mesh=mesh, split=split, op=op), opts=dict(timeout=900, follow_nominal=True)))
    add('unused/tri3fan', unused_config, mesh='tri3fan')
    add('unused/tet2', unused_config, mesh='tet2')
    # transformations
    for mesh in ['tri2', 'tri2perm', 'tet2', 'quad2', 'line3perm']:
        add('transform/%s' % mesh, transform_config, mesh=mesh, sub={'s0': [0]}, bnd={'b': [0, 1]}, timeout=900 if quick else 3000)
    # quadrilateral splitting, both styles, cyclic shifts
    from checks.c03 import shifted
    for style in (None, 'x'):
        for (r0, r1) in ([(0, 0), (1, 2), (3, 1)] if quick else [(a, b) for a in range(4) for b in range(4)]):
            add('to_meshtri/style=%s/shift=%d%d' % (style, r0, r1), split_config, mesh='quad2', style=style, pt=shifted('quad2', (r0, r1)),
                sub={'s0': [0], 's1': [1]}, bnd={'b%d' % f: [f] for f in range(7)})
        add('to_meshtri/style=%s/quad3row' % style, split_config, mesh='quad3row', style=style,
            sub={'s0': [0], 's2': [2]}, bnd={'b%d' % f: [f] for f in range(10)})
    for order in [(0, 1), (1, 0), (0, 2, 1), (2, 0, 1)] + ([] if quick else [(1, 2, 0), (2, 1, 0), (0, 1, 2), (1, 0, 2)]):
        add('extrude/tri1xline/levels=%s' % ''.join(map(str, order)), extrude_config, order=order)
    add('extrude/linextri1/levels=102', extrude_config, order=(1, 0, 2), commuted=True)
    for ox, oy in [((0, 1), (1, 0)), ((1, 0, 2), (0, 1)), ((0, 2, 1), (2, 0, 1))]:
        add('extrude/linexline/x=%s/y=%s' % (''.join(map(str, ox)), ''.join(map(str, oy))), extrude_line_config, orderx=ox, ordery=oy)
    for kind in ('hex', 'wedge'):
        for n in (1, 2):
            add('to_meshtet/%s/cells=%d' % (kind, n), to_meshtet_config, kind=kind, ncells=n, timeout=900 if quick else 3000)
    add('trace/tri2', trace_config, mesh='tri2')
    add('trace/tet2', trace_config, mesh='tet2')
    for order in ('restrict-refine', 'refine-restrict'):
        add('composition/tri2/%s' % order, composition_config, mesh='tri2', order=order)
        add('composition/quad2/%s' % order, composition_config, mesh='quad2', order=order)
    return cfgs


META = dict(
    explanation='Mesh operations run on meshes whose vertex coordinates are symbolic (and serve as tracers).  z3 decides: restrict/'
                'remove_elements/remove_unused_nodes return meshes whose cell k has, slot by slot, the coordinates of the selected old cell and '
                'whose returned index map relates new to old vertices; carried subdomain/boundary names designate entities with the same vertices, '
                'names of removed entities disappear; translated/scaled/morphed/mirrored give T(p) for symbolic parameters and leave t, tags and '
                'the operand untouched; mirrored flips the determinant; oriented() makes every determinant positive (path-wise inequality); '
                'to_meshtri: triangles inside one parent, areas add up, tags carried; extrusion (triangle x line, line x line) fills every pair of consecutive levels once whatever the storage order of the nodes; joins (m1 + m2, m1 @ m2, remove_duplicate_nodes) of the two parts of a symbolic mesh keep every cell on its vertices with one vertex per distinct point.',
    symbolic='vertex coordinates, translation, scale factors, mirror normal and point, extrusion levels',
    bounds=dict(restrict='ALL ordered selections (sorted and unsorted) of the cells of 2-3 cell meshes with tags on every cell subset and every facet',
                split='quadrilateral pairs in 3 (thorough 16) cyclic shifts, both styles'),
    outside=['joins: float-level effects of the merge (rounding to 8 decimals, byte-wise comparison incl. signed zeros: the row-unique idiom is '
             'modelled by its contract on symbolic rows, along the nominal ordering of the points only), joins of meshes that do not come '
             'from one symbolic vertex set',
             'to_meshtet volume identity on general (non-parallelepiped) hexahedra', 'compositions beyond restrict/refine'],
    stubs=[],
    assumptions=['mesh validity'],
    design_ref='DESIGN.md 4/C18',
)

if __name__ == '__main__':
    sys.exit(harness.main('C18', 'checks.c18', build_configs, META))
