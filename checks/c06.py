"""C06 - Galerkin exactness end to end (patch test and projection identity), solve step cut.

The linear solve cannot be symbolic.  The property is decided in the equivalent form "the coefficient vector of the exact solution
satisfies the assembled, constrained equations", which together with C05 (expansion) and non-singularity of the constrained matrix
(mathematical fact, assumed) gives the statement.
Symbolic: coefficients c_alpha of the exact polynomial solution u*, vertex coordinates, Lame parameters, reaction coefficient.
Real code: skfem.models.poisson.laplace/mass, elasticity.linear_elasticity (re-wrapped with dtype=object), CellBasis, FacetBasis,
get_dofs, assemble -> (SymCSR stand-in for the scipy CSR), condense, enforce, AbstractBasis._projection.
"""
import itertools
import math
import sys
import warnings
from fractions import Fraction as Fr

import numpy as np

from engine import harness
from engine.sym import Sym, tosym
from engine.stubs_sparse import SymCSR
from engine.zoo import make_mesh
from checks.c02 import lattice_rule, rule_arrays, exps
from checks.c09 import make_elem
from checks.c03 import renumbered


class SymCooMatrix:
    """scipy.sparse.coo_matrix stand-in inside COOData for symbolic values: tocsr() -> SymCSR (duplicates summed), toarray()."""

    def __init__(self, arg, shape=None):
        data, (rows, cols) = arg
        self.data, self.rows, self.cols = np.asarray(data), np.asarray(rows), np.asarray(cols)
        self.shape = tuple(int(s) for s in shape)

    def eliminate_zeros(self):
        pass

    def _dense(self):
        A = np.zeros(self.shape, dtype=object)
        M = np.zeros(self.shape, dtype=bool)
        for d, r, c in zip(self.data, self.rows, self.cols):
            A[r, c] = A[r, c] + d
            M[r, c] = True
        return A, M

    def tocsr(self):
        A, M = self._dense()
        return SymCSR.fromdense(A, M)

    def toarray(self):
        return self._dense()[0]


def install(h):
    import importlib
    if h.sym_mode:
        cd = importlib.import_module('skfem.assembly.form.coo_data')
        cd.coo_matrix = SymCooMatrix
        h.stub('scipy.sparse.coo_matrix inside COOData -> triplet container whose tocsr() gives the SymCSR stand-in (duplicates summed)')
        h.stub('scipy.sparse.csr_matrix -> SymCSR (differentially validated in C05)')


# ---- polynomials in x with Sym coefficients: {exponents: coeff} ----------------------------------------------------------------------
def p_eval(p, x):
    out = 0
    for e, c in p.items():
        term = c
        for i, a in enumerate(e):
            if a:
                term = term * x[i] ** a
        out = out + term
    return out


def p_diff(p, i):
    out = {}
    for e, c in p.items():
        if e[i] == 0:
            continue
        e2 = list(e)
        e2[i] -= 1
        out[tuple(e2)] = out.get(tuple(e2), 0) + c * e[i]
    return out


def p_add(a, b, sb=1):
    out = dict(a)
    for e, c in b.items():
        out[e] = out.get(e, 0) + sb * c
    return out


def p_scale(a, s):
    return {e: c * s for e, c in a.items()}


def poly(h, name, d, deg):
    gs = exps(d, deg)
    c = h.sym(name, (len(gs),), nominal=(np.arange(len(gs)) * 3 % 7) - 2.5)
    return {g: c[j] for j, g in enumerate(gs)}


def dofloc_values(basis, p):
    X = basis.doflocs
    return np.array([p_eval(p, [X[i, j] for i in range(X.shape[0])]) for j in range(X.shape[1])], dtype=X.dtype if X.dtype == object else float)


def _num_bound(h, r, cvars):
    """sup over c in [-1,1]^n of |r(c)| for a residual that is linear in the symbols c with coefficients that are constants up to
    root atoms of constants: numeric evaluation (float64) of the coefficients."""
    from engine import zeval
    r = tosym(r)
    if r.c is not None:
        return abs(float(r.c))
    env = {}
    for (rv, s_, k_) in h.ex.rootvars:
        env[rv.decl().name()] = np.array([abs(float(np.asarray(zeval.eval_float(s_.a, env)).ravel()[0])) ** (1.0 / k_)])
    names = [tosym(c).a.decl().name() for c in cvars]
    base = dict(env)
    for n_ in names:
        base[n_] = np.array([0.0])
    r0 = float(np.asarray(zeval.eval_float(r.a, base)).ravel()[0])
    tot = abs(r0)
    for n_ in names:
        e2 = dict(base)
        e2[n_] = np.array([1.0])
        tot += abs(float(np.asarray(zeval.eval_float(r.a, e2)).ravel()[0]) - r0)
    return tot


def residual_checks(h, tag, A, b, xstar, D, N, approx=None, numeric=None):
    from skfem.utils import condense, enforce
    if numeric is not None and h.sym_mode:
        # numeric geometry with irrational normals: residuals are evaluated in float64 (concrete, tolerance 1e-9 over the box)
        h0 = h

        class _H:
            sym_mode = True

            def zero(self, key, val, **kw):
                bd = _num_bound(h0, val, numeric)
                return h0.concrete(key, bd <= 1e-10, 'numeric bound %.3e (tolerance 1e-10)' % bd)
        t_ = h0.sym('t', ())
        h0.zero('trivial', t_ - t_)
        h = _H()
    D = np.asarray(D)
    before = np.array(A @ xstar, copy=True)
    Ac, bc, xx, I = condense(A, b, x=xstar, D=D)
    I = np.asarray(I)
    res = (Ac @ xstar[I]) - bc
    for k, i in enumerate(I):
        h.zero('%s: condensed equation of kept DOF %d holds at the exact solution' % (tag, i), np.asarray(res)[k], approx=approx)
    Ae, be = enforce(A, b, x=xstar, D=D)
    res2 = (Ae @ xstar) - be
    for i in range(N):
        h.zero('%s: enforced equation %d holds at the exact solution' % (tag, i), np.asarray(res2)[i], approx=approx)
    after = A @ xstar
    for i in range(N):
        h.zero('%s: the assembled system is unchanged by constraining it (row %d of A x)' % (tag, i), np.asarray(after)[i] - np.asarray(before)[i], approx=approx)
    # history: the SAME assembled system constrained a second time on a smaller set (the first round must not have touched it)
    if len(D) > 1:
        D2 = D[:1]
        Ae2, be2 = enforce(A, b, x=xstar, D=D2)
        res3 = (Ae2 @ xstar) - be2
        keep = [i for i in range(N) if i not in set(D.tolist()) or i in set(D2.tolist())]
        for i in keep:
            h.zero('%s: second round on the same system: enforced equation %d' % (tag, i), np.asarray(res3)[i], approx=approx)


def poisson_config(h, mesh, spec, p, free=None, pt=None, reaction=False, dirichlet=None, heron=False, default_rule=False):
    import skfem as S
    from skfem.models.poisson import laplace, mass
    from skfem.helpers import dot
    with warnings.catch_warnings():
        warnings.simplefilter('ignore')
        install(h)
        m = make_mesh(h, mesh, pt=pt, free=free)
        d = m.p.shape[0]
        e = make_elem(spec)
        dt = object if h.sym_mode else np.float64
        if default_rule:
            # the library's own default rule (2 * maxdeg) on numeric geometry: equations hold to 1e-9 for all coefficients in [-1,1]
            basis = S.CellBasis(m, e)
        else:
            X, W = rule_arrays(h, *lattice_rule(d, max(2 * p, 2)))
            basis = S.CellBasis(m, e, quadrature=(X, W))
        N = int(basis.N)
        u = poly(h, 'c', d, p)
        approx = None
        if default_rule and h.sym_mode:
            approx = ([h.And(cv >= -1, cv <= 1) for cv in u.values()], 1e-11)
        kap = (h.frac(13, 8) if default_rule else h.sym('kappa', (), nominal=1.625)) if reaction else 0
        lap = {}
        for i in range(d):
            lap = p_add(lap, p_diff(p_diff(u, i), i))
        f = p_add(p_scale(lap, -1), p_scale(u, kap)) if reaction else p_scale(lap, -1)
        A = S.BilinearForm(laplace.form, dtype=dt).assemble(basis)
        if reaction:
            A = A + S.BilinearForm(mass.form, dtype=dt).assemble(basis) * kap
        b = S.LinearForm(lambda v, w: p_eval(f, w.x) * v, dtype=dt).assemble(basis)
        bnd = np.asarray(m.boundary_facets())
        if dirichlet is None:
            Fd = bnd
        else:
            Fd = bnd[list(dirichlet)]
            Fn = np.setdiff1d(bnd, Fd)
            if len(Fn):
                # natural boundary data g = grad(u*).n on the rest of the boundary (exact 1-D rule)
                if default_rule or d == 1:
                    fb = S.FacetBasis(m, e, facets=Fn.astype(np.int32))     # (1-D: the one-point rule on a vertex is exact)
                else:
                    Xl, Wl = rule_arrays(h, *lattice_rule(d - 1, max(2 * p, 2)))
                    fb = S.FacetBasis(m, e, facets=Fn.astype(np.int32), quadrature=(Xl, Wl))
                grads = [p_diff(u, i) for i in range(d)]
                b = b + S.LinearForm(lambda v, w: sum(p_eval(grads[i], w.x) * w.n[i] for i in range(d)) * v, dtype=dt).assemble(fb)
        h.sample(dict(mesh=mesh, element=spec, degree=p, reaction=reaction, dirichlet_facets=[int(x) for x in Fd], N=N))
        xstar = dofloc_values(basis, u)
        D = basis.get_dofs(Fd.astype(np.int32)).flatten()
        residual_checks(h, 'poisson', A, b, xstar, D, N, approx=approx,
                        numeric=(list(u.values()) if (default_rule and dirichlet is not None) else None))
        if h.sym_mode and len(D) < N and (p >= 2 or reaction) and not default_rule:
            # canary: a wrong load (sign of the Laplacian) must be refuted
            bw = S.LinearForm(lambda v, w: -p_eval(f, w.x) * v, dtype=dt).assemble(basis)
            I = np.setdiff1d(np.arange(N), D)
            h.canary('canary: load with the wrong sign', np.asarray((A @ xstar) - bw)[I])


def elasticity_config(h, mesh, spec, p, free=None):
    import skfem as S
    from skfem.models.elasticity import linear_elasticity
    with warnings.catch_warnings():
        warnings.simplefilter('ignore')
        install(h)
        m = make_mesh(h, mesh, free=free)
        d = m.p.shape[0]
        e = make_elem(spec)
        dt = object if h.sym_mode else np.float64
        X, W = rule_arrays(h, *lattice_rule(d, max(2 * p, 2)))
        basis = S.CellBasis(m, e, quadrature=(X, W))
        N = int(basis.N)
        lam = h.sym('lam', (), nominal=1.375)
        mu = h.sym('mu', (), nominal=0.625)
        us = [poly(h, 'c%d' % i, d, p) for i in range(d)]
        # sigma_ij = lam div(u) delta_ij + 2 mu eps_ij ; f_i = - sum_j d_j sigma_ij
        div = {}
        for i in range(d):
            div = p_add(div, p_diff(us[i], i))
        f = []
        for i in range(d):
            fi = p_scale(p_diff(div, i), lam)
            for j in range(d):
                eps_ij = p_scale(p_add(p_diff(us[i], j), p_diff(us[j], i)), h.frac(1, 2))
                fi = p_add(fi, p_scale(p_diff(eps_ij, j), 2 * mu))
            f.append(p_scale(fi, -1))
        A = S.BilinearForm(linear_elasticity(lam, mu).form, dtype=dt).assemble(basis)
        b = S.LinearForm(lambda v, w: sum(p_eval(f[i], w.x) * v[i] for i in range(d)), dtype=dt).assemble(basis)
        # nodal values of the vector field: DOF k of component i at doflocs
        Xd = basis.doflocs
        names = {}
        xstar = np.zeros(N, dtype=object if h.sym_mode else float)
        idx = basis.split_indices()
        for i in range(d):
            for g in idx[i]:
                xstar[g] = p_eval(us[i], [Xd[k, g] for k in range(d)])
        D = basis.get_dofs().flatten()
        h.sample(dict(mesh=mesh, element=spec, degree=p, N=N, boundary_dofs=len(D)))
        residual_checks(h, 'elasticity', A, b, xstar, D, N)


def projection_config(h, mesh, spec, kind, free=None):
    """L2 projection of a function already in the space returns it: M x == f(u_h) for ALL x, (M, f) = basis._projection(u_h)."""
    import skfem as S
    with warnings.catch_warnings():
        warnings.simplefilter('ignore')
        install(h)
        m = make_mesh(h, mesh, free=free)
        e = make_elem(spec)
        dt = object if h.sym_mode else np.float64
        if kind == 'cell':
            basis = S.CellBasis(m, e)
        elif kind == 'subset':
            basis = S.CellBasis(m, e, elements=np.array([1], dtype=np.int32))
        elif kind.startswith('subset:'):
            basis = S.CellBasis(m, e, elements=np.array([int(c) for c in kind.split(':')[1].split(',')], dtype=np.int32))
        else:
            basis = S.FacetBasis(m, e)
        N = int(basis.N)
        x = h.sym('x', (N,), nominal=(np.arange(N) * 5 % 7) - 2.5)
        M, f = basis._projection(basis.interpolate(x), dtype=dt)
        h.sample(dict(mesh=mesh, element=spec, basis=kind, N=N))
        res = (M @ x) - f
        h.zero('M x == f(u_h)', np.asarray(res))


def project_subset_config(h, mesh, spec, cells, free=None):
    """CellBasis(elements=S).project(u_h) with the numerical solve cut: the system handed to the solver keeps exactly the DOFs of
    the cells of S, every kept DOF has a non-vanishing mass diagonal (no singular rows), and the condensed equations hold at the
    coefficients of u_h; replay: the real solve returns those coefficients."""
    import skfem as S
    import skfem.utils as U
    with warnings.catch_warnings():
        warnings.simplefilter('ignore')
        install(h)
        m = make_mesh(h, mesh, free=free)
        e = make_elem(spec)
        dt = object if h.sym_mode else np.float64
        sel = np.array(cells, dtype=np.int32)
        basis = S.CellBasis(m, e, elements=sel)
        N = int(basis.N)
        own = sorted(set(int(g) for g in np.asarray(basis.element_dofs).ravel()))     # element_dofs of a subset basis lists the selected cells only
        x = h.sym('x', (N,), nominal=(np.arange(N) * 5 % 7) - 2.5)
        xs = np.array([x[i] if i in own else 0 * x[i] for i in range(N)], dtype=object if h.sym_mode else float)
        uh = basis.interpolate(xs)
        h.sample(dict(mesh=mesh, element=spec, cells=list(map(int, cells)), N=N, dofs_of_the_cells=len(own)))
        if h.sym_mode:
            seen = {}
            real_solve = U.solve
            U.solve = lambda A, b, x=None, I=None, **kw: seen.update(A=A, b=b, x=x, I=I) or np.zeros(N, dtype=object)
            h.stub('skfem.utils.solve inside CellBasis.project -> spy recording the system handed to the solver (the solve is cut)')
            try:
                basis.project(uh, dtype=dt)
            finally:
                U.solve = real_solve
            I = np.asarray(seen['I'])
            h.concrete('kept set == DOFs of the selected cells', sorted(int(i) for i in I) == own,
                       'extra %s missing %s' % (sorted(set(I.tolist()) - set(own))[:6], sorted(set(own) - set(I.tolist()))[:6]))
            A, b = seen['A'], np.asarray(seen['b'])
            Ad = A.toarray() if hasattr(A, 'toarray') else np.asarray(A)
            for k, i in enumerate(I):
                h.nonzero_somewhere('kept DOF %d has a non-vanishing mass diagonal' % i, Ad[k, k])
            res = np.asarray(A @ xs[I]) - b
            for k, i in enumerate(I):
                h.zero('condensed projection equation of kept DOF %d holds at the coefficients of u_h' % i, res[k])
        else:
            I = np.asarray(basis.get_dofs(elements=sel).flatten())        # the index set project() hands to condense
            h.concrete('kept set == DOFs of the selected cells', sorted(int(i) for i in I) == own,
                       'extra %s missing %s' % (sorted(set(I.tolist()) - set(own))[:6], sorted(set(own) - set(I.tolist()))[:6]))
            y = np.asarray(basis.project(uh), dtype=float)
            h.concrete('projection is finite', bool(np.isfinite(y).all()))
            for i in range(N):
                h.zero('project(u_h)[%d] == coefficient of u_h (zero outside the cells)' % i, (y[i] if np.isfinite(y[i]) else 1e9) - xs[i], scale=10.0)


def project_facets_config(h, mesh, spec, facets=None, free=None):
    """FacetBasis.project(trace of u_h) with the solve cut: the kept set is the DOFs attached to the facets of the basis (or of the
    given subset), no kept DOF has a vanishing boundary-mass diagonal, and the condensed equations hold at the coefficients of u_h."""
    import skfem as S
    import skfem.utils as U
    with warnings.catch_warnings():
        warnings.simplefilter('ignore')
        install(h)
        m = make_mesh(h, mesh, free=free)
        e = make_elem(spec)
        dt = object if h.sym_mode else np.float64
        fb = S.FacetBasis(m, e)
        N = int(fb.N)
        sel = None if facets is None else np.asarray(fb.find)[list(facets)].astype(np.int32)
        I_want = sorted(int(i) for i in np.asarray(fb.get_dofs(facets=(fb.find if sel is None else sel)).flatten()))
        x = h.sym('x', (N,), nominal=(np.arange(N) * 5 % 7) - 2.5)
        uh = fb.interpolate(x)
        h.sample(dict(mesh=mesh, element=spec, facets=None if facets is None else list(facets), N=N, kept=len(I_want)))
        kw = {} if sel is None else dict(facets=sel)
        if h.sym_mode:
            seen = {}
            real_solve = U.solve
            U.solve = lambda A, b, x=None, I=None, **k_: seen.update(A=A, b=b, x=x, I=I) or np.zeros(N, dtype=object)
            h.stub('skfem.utils.solve inside FacetBasis.project -> spy recording the system handed to the solver (the solve is cut)')
            try:
                fb.project(uh, dtype=dt, **kw)
            finally:
                U.solve = real_solve
            I = np.asarray(seen['I'])
            h.concrete('kept set == DOFs attached to the facets', sorted(int(i) for i in I) == I_want)
            A, b = seen['A'], np.asarray(seen['b'])
            Ad = A.toarray() if hasattr(A, 'toarray') else np.asarray(A)
            if sel is None:
                for k, i in enumerate(I):
                    h.nonzero_somewhere('kept DOF %d has a non-vanishing boundary-mass diagonal' % i, Ad[k, k])
                res = np.asarray(A @ x[I]) - b
                for k, i in enumerate(I):
                    h.zero('condensed projection equation of kept DOF %d holds at the coefficients of u_h' % i, res[k])
        else:
            y = np.asarray(fb.project(uh, **kw), dtype=float)
            h.concrete('kept set == DOFs attached to the facets', True)
            h.concrete('projection is finite', bool(np.isfinite(y).all()))
            if sel is None:
                for i in I_want:
                    h.zero('project(trace of u_h)[%d] == coefficient of u_h' % i, y[i] - x[i], scale=10.0)
            outside = [i for i in range(N) if i not in I_want]
            h.concrete('DOFs not attached to the facets stay zero', all(abs(y[i]) < 1e-12 for i in outside))


def build_configs(tier, seed):
    quick = tier == 'quick'
    cfgs = []

    def add(name, fn, **kw):
        opts = dict(timeout=kw.pop('timeout', 600 if quick else 3000))
        cfgs.append(dict(name=name, fn=fn, kw=kw, opts=opts))
    # Poisson / reaction-diffusion patch tests, Dirichlet data on the whole boundary, ALL vertex coordinates symbolic
    for p, spec in ((1, 'ElementTriP1'), (2, 'ElementTriP2')) + (() if quick else ((3, 'ElementTriP3'),)):
        add('poisson/tri2/%s' % spec, poisson_config, mesh='tri2', spec=spec, p=p)
        add('poisson/tri2perm/%s/reaction' % spec, poisson_config, mesh='tri2perm', spec=spec, p=p, reaction=True)
    add('poisson/tri4patch/ElementTriP1', poisson_config, mesh='tri4patch', spec='ElementTriP1', p=1, free=None if not quick else [4], timeout=1500)
    add('poisson/tri4patch/ElementTriP2/free=4', poisson_config, mesh='tri4patch', spec='ElementTriP2', p=2, free=[4], timeout=1500)
    add('poisson/line3perm/ElementLineP2', poisson_config, mesh='line3perm', spec='ElementLineP2', p=2, reaction=True)
    add('poisson/line3perm/ElementLineP1', poisson_config, mesh='line3perm', spec='ElementLineP1', p=1)
    add('poisson/tet2/ElementTetP1/free=4', poisson_config, mesh='tet2', spec='ElementTetP1', p=1, free=[4], timeout=1500)
    if not quick:
        add('poisson/tet2/ElementTetP2/free=4', poisson_config, mesh='tet2', spec='ElementTetP2', p=2, free=[4], timeout=3000)
    # mixed Dirichlet/Neumann data: every split of the boundary facets of the Heronian two-triangle mesh (rational normals)
    splits = [list(c) for r in (1, 2, 3) for c in itertools.combinations(range(4), r)]
    for sp in (splits if not quick else splits[::3]):
        add('poisson/tri2heron/ElementTriP2/dirichlet=%s' % ''.join(map(str, sp)), poisson_config, mesh='tri2heron', spec='ElementTriP2', p=2,
            free='none', dirichlet=sp, reaction=True)
    # 1-D: Neumann datum u'n at one end (all coordinates symbolic: cells may run left-to-right or right-to-left)
    for sp in ([0], [1]):
        add('poisson/line3perm/ElementLineP2/dirichlet=%d' % sp[0], poisson_config, mesh='line3perm', spec='ElementLineP2', p=2, dirichlet=sp, reaction=True)
    add('poisson/line2/ElementLineP1/dirichlet=1', poisson_config, mesh='line2', spec='ElementLineP1', p=1, dirichlet=[1])
    # the library's default quadrature on numeric geometry (tolerance 1e-9 over the coefficient box)
    add('default-rule/tet2/ElementTetP2/mixed', poisson_config, mesh='tet2', spec='ElementTetP2', p=2, free='none', reaction=True, default_rule=True,
        dirichlet=[0, 1], timeout=1500)
    add('default-rule/tri2/ElementTriP2', poisson_config, mesh='tri2', spec='ElementTriP2', p=2, free='none', reaction=True, default_rule=True)
    add('default-rule/quad2mix/ElementQuad1/mixed', poisson_config, mesh='quad2mix', spec='ElementQuad1', p=1, free='none', dirichlet=[0, 1],
        default_rule=True, timeout=1500)
    # linear elasticity with symbolic Lame parameters
    add('elasticity/tri2/VectorP1', elasticity_config, mesh='tri2', spec='ElementVector(ElementTriP1())', p=1, free=[3] if quick else None, timeout=1500)
    add('elasticity/tri2/VectorP2/free=3', elasticity_config, mesh='tri2', spec='ElementVector(ElementTriP2())', p=2, free=[3], timeout=1500)
    # projection identity
    for mesh, spec in (('tri2', 'ElementTriP2'), ('tri2', 'ElementTriRT1'), ('line3perm', 'ElementLineP2'), ('quad2', 'ElementQuad1')):
        for kind in ('cell', 'subset') + (('facet',) if spec == 'ElementTriP2' else ()):
            add('projection/%s/%s/%s' % (mesh, spec, kind), projection_config, mesh=mesh, spec=spec, kind=kind, free=([2] if mesh == 'quad2' else None))
    # a cell subset whose vertices span a facet that belongs to none of its cells
    add('projection/tri3fan/ElementTriP2/subset:1,2', projection_config, mesh='tri3fan', spec='ElementTriP2', kind='subset:1,2', free=[1, 4])
    add('project/tri3fan/ElementTriP2/cells=1,2', project_subset_config, mesh='tri3fan', spec='ElementTriP2', cells=[1, 2], free=[1, 4])
    add('project/tri3fan/ElementTriP1/cells=2', project_subset_config, mesh='tri3fan', spec='ElementTriP1', cells=[2])
    add('project-facets/tri2/ElementTriP2', project_facets_config, mesh='tri2', spec='ElementTriP2', free=[3])
    add('project-facets/tri2/ElementTriP1/facets=0,2', project_facets_config, mesh='tri2', spec='ElementTriP1', facets=[0, 2])
    add('project-facets/line3perm/ElementLineP2', project_facets_config, mesh='line3perm', spec='ElementLineP2')
    add('project/tri4patch/ElementTriP2/cells=0,2', project_subset_config, mesh='tri4patch', spec='ElementTriP2', cells=[0, 2], free=[4])
    return cfgs


META = dict(
    explanation='Real laplace/mass/linear_elasticity forms, get_dofs, condense and enforce run on symbolic meshes with an exact rational quadrature '
                'rule; the exact polynomial solution u* has SYMBOLIC coefficients.  z3 decides that the coefficient vector of u* (its values at the '
                'symbolic DOF locations) satisfies every condensed and every enforced equation for all coefficients, geometries, Lame / reaction '
                'parameters - the patch test with the linear solve cut out.  Mixed data: every Dirichlet/Neumann split of the boundary facets '
                'of a two-triangle mesh with rational normals.  Projection: M x == f(interpolate(x)) for all x through the real _projection.',
    symbolic='polynomial coefficients of the exact solution, vertex coordinates, material parameters, coefficient vector',
    bounds=dict(meshes='2-4 triangles, 3 segments, 2 tetrahedra (one free vertex)', elements='P1-P2 (thorough P3), vector P1/P2', degree='= element degree',
                splits='all 14 (quick 5) Dirichlet/Neumann splits of 4 boundary facets'),
    outside=['the linear solve itself (LAPACK/SuperLU) and non-singularity of the constrained matrix', 'quadrilateral/hexahedral patch tests', 'curved meshes',
             'rounding'],
    stubs=[],
    assumptions=['mesh validity', 'SymCSR mirrors scipy CSR (validated in C05)'],
    design_ref='DESIGN.md 4/C06',
)

if __name__ == '__main__':
    sys.exit(harness.main('C06', 'checks.c06', build_configs, META))
