#!/bin/bash
# usage: tools/evalmut.sh <ID> <k> [check ids...]   evaluates seeded mutant /tmp/seedout/<ID>/mutant<k>.diff in a scratch worktree
# (never touches /repo's working tree). Writes /tmp/ev/results/<ID>_<k>.txt
ID="$1"; K="$2"; shift 2
CHECKS="${@:-$ID}"
SRC=/tmp/seedout/$ID
WT=/tmp/ev/${ID}_${K}
OUT=/tmp/ev/results/${ID}_${K}.txt
mkdir -p /tmp/ev/results
git -C /repo worktree remove --force $WT 2>/dev/null
git -C /repo worktree add -q --detach $WT HEAD || exit 3
{
echo "== mutant $ID/$K"
if ! git -C $WT apply $SRC/mutant$K.diff; then echo "APPLY-FAILED"; git -C /repo worktree remove --force $WT; exit 3; fi
git -C $WT diff --stat | tail -1
( cd /tmp && PYTHONPATH=$WT timeout 900 /venv/bin/python $SRC/demo$K.py >/tmp/ev/demo_${ID}_${K}.mut.log 2>&1 ); echo "demo-on-mutant rc=$?"
( cd /tmp && PYTHONPATH=/repo timeout 900 /venv/bin/python $SRC/demo$K.py >/tmp/ev/demo_${ID}_${K}.clean.log 2>&1 ); echo "demo-on-clean rc=$?"
for C in $CHECKS; do
  ( cd /verif && VERIF_REPO=$WT timeout 3000 ./run_check.sh $C quick --no-evidence > /tmp/ev/check_${ID}_${K}_$C.log 2>&1 ); rc=$?
  echo "check $C rc=$rc  $(grep -c '^VIOLATION' /tmp/ev/check_${ID}_${K}_$C.log) violations; first: $(grep -A1 '^VIOLATION' /tmp/ev/check_${ID}_${K}_$C.log | sed -n 2p | cut -c1-200)"
  grep '^HARNESS-ERROR' /tmp/ev/check_${ID}_${K}_$C.log | head -2 | cut -c1-200
done
if [ -z "$NOSUITE" ]; then
  ( cd $WT && PYTHONPATH=$WT timeout 3000 /venv/bin/python -m pytest -q -p no:cacheprovider --timeout=900 --deselect tests/test_mamba.py -x -q 2>&1 | tail -2 | tr '\n' ' ' ); echo
fi
} > $OUT 2>&1
git -C /repo worktree remove --force $WT
cat $OUT
