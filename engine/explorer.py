"""Depth-first concolic path explorer (DESIGN 2.4).

The real library function is re-run once per path.  ``bool(SymBool)`` lands in ``decide``.
Feasibility of a branch is *reachability* only and is established in layers:
  1. witness: a pool of random rational points (seeded) evaluated against assumptions + path
     condition + branch (vectorised floats with a safety margin, one exact Fraction confirmation)
  2. operand abstraction -> linear problem; unsat there = infeasible (sound)
  3. fresh qfnra-nlsat solver per query (guessed cores, then the full set)
  4. otherwise the branch is recorded as unexplored (neither pass nor alarm)
Goals are never decided here.
"""
import time
import numpy as np
import z3
from .sym import Sym, Ctx, Fr
from . import zeval


class PathAbort(Exception):
    """Raised by harness code to abandon a path (e.g. path bound)."""


class Infeasible(Exception):
    pass


def nlsat_solver(timeout_ms):
    s = z3.Tactic('qfnra-nlsat').solver()
    s.set('timeout', int(timeout_ms))
    return s


_CMP = {z3.Z3_OP_LT, z3.Z3_OP_LE, z3.Z3_OP_GT, z3.Z3_OP_GE, z3.Z3_OP_EQ, z3.Z3_OP_DISTINCT}


class Explorer:
    def __init__(self, seed=0, maxpaths=256, npool=400, feas_ms=(3000, 20000), scale=1.0,
                 maxdecisions=400, follow_nominal=False, time_budget=None):
        # follow_nominal: explore ONLY the path taken by the nominal geometry (no forks); obligations are then decided for all
        # values that take the same branches as the nominal point (an open set around it); the other sides are counted as
        # not explored by design
        self.follow_nominal = follow_nominal
        # time_budget (s): no NEW path is started after it; the paths completed so far keep their verdicts and the rest is counted
        # as not explored (bound_hit), instead of the whole configuration being killed by the harness timeout
        self.time_budget = time_budget
        self.seed = seed
        self.maxpaths = maxpaths
        self.npool = npool
        self.feas_ms = feas_ms
        self.scale = scale
        self.maxdecisions = maxdecisions
        self.stats = dict(paths=0, forks=0, decided_by_witness=0, decided_by_abstraction=0,
                          decided_by_nlsat=0, unexplored=0, feas_queries=0, feas_time=0.0,
                          bound_hit=False)
        self._keep = []     # keep z3 ASTs alive: ids are reused after GC
        self._atoms = {}

    # ------------------------------------------------------------------ per-run state
    def _reset(self, prefix, extra):
        self.prefix = prefix
        self.extra = extra            # extra witness envs (from solver models) for this prefix
        self.trace = []
        self.pc = []
        self.cache = {}
        self.assume_list = []
        self.dens = []                # Syms that were divided by
        self.roots = {}
        self.rootdefs = []            # form A: r>=0 and r^k == radicand.a
        self.rootdefs_b = []          # form B: r>=0 and r^k*den == num
        self.rad = {}
        self.vars = {}                # name -> nominal
        self.pool = {}                # name -> float array over points
        self.alive = None
        self.npts = 0
        self.exact_memo = {}
        self.rootvars = []
        self.rng = np.random.RandomState(self.seed + 7919 * len(prefix))

    # ------------------------------------------------------------------ declarations
    def declare(self, name, nominal=0.0):
        if name in self.vars:
            return
        self.vars[name] = float(nominal)
        if self.alive is not None:
            self.pool[name] = self._sample(float(nominal), self.npts)

    def _sample(self, nominal, n):
        r = self.rng
        # half of the points use ONE noise scale for all variables (so that box-shaped assumptions around the nominal
        # geometry keep many witnesses), the other half an independent scale per variable
        if getattr(self, '_ptscale', None) is None or len(self._ptscale) != n:
            self._ptscale = np.array([0.004, 0.02, 0.1, 0.35, 1.0, 3.0])[np.random.RandomState(self.seed + 13).randint(0, 6, size=n)]
        own = np.array([0.02, 0.1, 0.35, 1.0, 3.0])[r.randint(0, 5, size=n)]
        half = np.arange(n) % 2 == 0
        sc = np.where(half, self._ptscale, own) * self.scale
        x = nominal + sc * r.uniform(-1, 1, size=n)
        return np.round(x * 1024) / 1024

    def extra_envs(self):
        return self.extra

    def _ensure_pool(self):
        if self.alive is not None:
            return
        n = self.npool
        self.npts = n
        for name, nom in self.vars.items():
            self.pool[name] = self._sample(nom, n)
        # extra witnesses from solver models: the point itself + a tight cloud around it
        for env in self.extra:
            m = 24
            for name in self.vars:
                c = float(env.get(name, self.vars[name]))
                cloud = c + np.concatenate([[0.0], self.rng.uniform(-1, 1, m - 1) *
                                            np.array([1e-4, 1e-3, 1e-2])[self.rng.randint(0, 3, m - 1)]])
                self.pool[name] = np.concatenate([self.pool[name], cloud])
            self.npts += m
        self.alive = np.ones(self.npts, dtype=bool)
        self.fmemo = {}
        for f in self.assume_list:
            self._filter(f)
        for (rv, s, k) in self.rootvars:
            self._root_pool(rv, s, k)

    def _root_pool(self, rv, s, k):
        with np.errstate(all='ignore'):
            v = np.asarray(zeval.eval_float(s.a, self.pool, self.fmemo), dtype=float) * np.ones(self.npts)
            self.alive &= (v >= 0)
            self.pool[rv.decl().name()] = np.where(v >= 0, np.abs(v) ** (1.0 / k), 0.0)

    def _truth(self, e):
        """(truth, robust) arrays of a condition over the pool."""
        with np.errstate(all='ignore'):
            k = e.decl().kind()
            neg = False
            x = e
            if k == z3.Z3_OP_NOT:
                neg = True
                x = e.arg(0)
                k = x.decl().kind()
            if k in _CMP and x.num_args() == 2:
                a = np.asarray(zeval.eval_float(x.arg(0), self.pool, self.fmemo), dtype=float) * np.ones(self.npts)
                b = np.asarray(zeval.eval_float(x.arg(1), self.pool, self.fmemo), dtype=float) * np.ones(self.npts)
                d = a - b
                robust = np.abs(d) > 1e-8 * (np.abs(a) + np.abs(b)) + 1e-290
                robust &= np.isfinite(d)
                t = {z3.Z3_OP_LT: d < 0, z3.Z3_OP_LE: d <= 0, z3.Z3_OP_GT: d > 0, z3.Z3_OP_GE: d >= 0,
                     z3.Z3_OP_EQ: d == 0, z3.Z3_OP_DISTINCT: d != 0}[k]
                if k == z3.Z3_OP_EQ:
                    # equality is never "robustly true" in floats; robustly false if far apart
                    robust = robust & ~t
                if k == z3.Z3_OP_DISTINCT:
                    robust = robust & t
                return (np.logical_not(t) if neg else t), robust
            t = np.asarray(zeval.eval_float(e, self.pool, self.fmemo), dtype=bool) * np.ones(self.npts, dtype=bool)
            return t, np.ones(self.npts, dtype=bool)

    def _filter(self, f):
        t, robust = self._truth(f)
        self.alive &= t & robust

    def assume(self, f):
        """Add a precondition (e.g. mesh validity).  Must precede the code it constrains."""
        if isinstance(f, bool):
            if not f:
                raise Infeasible('assumption is concretely false')
            return
        self.assume_list.append(f)
        if self.alive is not None:
            self._filter(f)

    def note_den(self, s):
        self.dens.append(s)

    def root(self, s, k):
        key = (self._simp(s.a).get_id(), k)
        if key in self.roots:
            return self.roots[key]
        r = z3.Real('root%d!%d' % (k, len(self.roots)))
        pw = r * r if k == 2 else r * r * r
        self.rootdefs.append(z3.And(r >= 0, pw == s.a))
        self.rootdefs_b.append(z3.And(r >= 0, pw * s.den() == s.n))
        self.rad[r.get_id()] = (s, k)
        self._keep.append(r)
        out = Sym(r)
        self.roots[key] = out
        self.rootvars.append((r, s, k))
        if self.alive is not None:
            self._root_pool(r, s, k)
        return out

    def _simp(self, e):
        s = z3.simplify(e, som=True)
        self._keep.append(e)
        self._keep.append(s)
        return s

    # ------------------------------------------------------------------ solver layers
    def _abstract(self, e):
        """Replace the operands of comparisons by opaque reals interned by simplified term."""
        k = e.decl().kind()
        if k == z3.Z3_OP_NOT:
            a = self._abstract(e.arg(0))
            return None if a is None else z3.Not(a)
        if k in _CMP and e.num_args() == 2:
            ops = []
            for c in (e.arg(0), e.arg(1)):
                if z3.is_rational_value(c):
                    ops.append(c)
                    continue
                s = self._simp(c)
                if z3.is_rational_value(s):
                    ops.append(s)
                    continue
                i = s.get_id()
                if i not in self._atoms:
                    self._atoms[i] = z3.Real('t!%d' % len(self._atoms))
                ops.append(self._atoms[i])
            return e.decl()(*ops)
        return None

    def _q(self, solver, *es):
        t0 = time.time()
        solver.add(*es)
        r = str(solver.check())
        self.stats['feas_queries'] += 1
        self.stats['feas_time'] += time.time() - t0
        return r, solver

    def _feasible(self, e):
        """'sat' (with env) / 'unsat' / 'unknown' for assumptions + pc + e."""
        # layer 2
        ab = [self._abstract(c) for c in self.pc + [e]]
        ab = [a for a in ab if a is not None]
        if ab and self._abstract(e) is not None:
            s = z3.Solver()
            s.set('timeout', 2000)
            r, _ = self._q(s, *ab)
            if r == 'unsat':
                self.stats['decided_by_abstraction'] += 1
                return 'unsat', None
        defs = list(self.rootdefs)
        dens = [d.a != 0 for d in self.dens]
        full = self.assume_list + self.pc + defs
        # layer 3: full set, short; guessed cores; full set, long
        r, s = self._q(nlsat_solver(self.feas_ms[0]), e, *full)
        if r == 'unknown':
            for c in self.pc[::-1][:12]:
                r2, _ = self._q(nlsat_solver(1000), e, c, *defs)
                if r2 == 'unsat':
                    r = 'unsat'
                    break
            if r == 'unknown' and self.assume_list:
                r2, _ = self._q(nlsat_solver(2000), e, *self.assume_list, *defs)
                if r2 == 'unsat':
                    r = 'unsat'
            if r == 'unknown':
                r, s = self._q(nlsat_solver(self.feas_ms[1]), e, *full)
        if r == 'sat':
            self.stats['decided_by_nlsat'] += 1
            return 'sat', zeval.model_to_env(s.model())
        if r == 'unsat':
            self.stats['decided_by_nlsat'] += 1
            return 'unsat', None
        return 'unknown', None

    def _confirm(self, idx, conds):
        """Exact confirmation of a float witness (skipped when root atoms are involved)."""
        if self.rootvars:
            return True
        env = {k: Fr(float(v[idx])) for k, v in self.pool.items()}
        memo = self.exact_memo.setdefault(idx, {})
        try:
            return all(bool(zeval.eval_exact(c, env, memo)) for c in conds)
        except (ZeroDivisionError, NotImplementedError):
            return False

    # ------------------------------------------------------------------ the decision procedure
    def decide(self, e):
        k = e.get_id()
        if k in self.cache:
            return self.cache[k]
        if z3.is_true(e) or z3.is_false(e):
            return z3.is_true(e)
        if len(self.trace) >= self.maxdecisions:
            self.stats['bound_hit'] = True
            raise PathAbort('decision bound')
        self._keep.append(e)
        self._ensure_pool()
        i = len(self.trace)
        t, robust = self._truth(e)
        if i < len(self.prefix):
            c = self.prefix[i]
        elif self.follow_nominal:
            env = {k_: Fr(v_) for k_, v_ in self.vars.items()}
            try:
                c = bool(zeval.eval_exact(e, env))
            except Exception:
                envf = {k_: np.array([v_]) for k_, v_ in self.vars.items()}
                for (rv, s_, k_) in self.rootvars:
                    envf[rv.decl().name()] = np.abs(np.asarray(zeval.eval_float(s_.a, envf), dtype=float)) ** (1.0 / k_)
                c = bool(np.asarray(zeval.eval_float(e, envf)).ravel()[0])
            self.stats['not_explored_by_design'] = self.stats.get('not_explored_by_design', 0) + 1
        else:
            okT = self.alive & robust & t
            okF = self.alive & robust & ~t
            feas = {}
            for side, mask, cond in ((True, okT, e), (False, okF, z3.Not(e))):
                got = False
                for idx in np.nonzero(mask)[0][:3]:
                    if self._confirm(int(idx), self.assume_list + self.pc + [cond]):
                        got = True
                        break
                if got:
                    feas[side] = ('sat', None)
                    self.stats['decided_by_witness'] += 1
                else:
                    feas[side] = self._feasible(cond)
            vT, vF = feas[True][0], feas[False][0]
            for side in (True, False):
                if feas[side][0] == 'unknown':
                    self.stats['unexplored'] += 1
            if vT == 'sat' and vF == 'sat':
                c = True
                self.stats['forks'] += 1
                ex = list(self.extra) + ([feas[False][1]] if feas[False][1] else [])
                self.stack.append((list(self.trace) + [False], ex))
                if feas[True][1]:
                    self._add_point(feas[True][1])
            elif vT == 'sat':
                c = True
                if feas[True][1]:
                    self._add_point(feas[True][1])
            elif vF == 'sat':
                c = False
                if feas[False][1]:
                    self._add_point(feas[False][1])
            else:
                # neither side shown reachable: this path prefix is infeasible or undecidable
                raise Infeasible('no feasible outcome (%s/%s)' % (vT, vF))
        self.trace.append(c)
        self.pc.append(e if c else z3.Not(e))
        self.cache[k] = c
        if t.shape[0] != self.npts:
            t, robust = self._truth(e)
        self.alive &= robust & (t if c else ~t)
        return c

    def _add_point(self, env):
        self.extra = list(self.extra) + [env]
        m = 24
        for name in self.vars:
            cval = float(env.get(name, self.vars[name]))
            cloud = cval + np.concatenate([[0.0], self.rng.uniform(-1, 1, m - 1) *
                                          np.array([1e-4, 1e-3, 1e-2])[self.rng.randint(0, 3, m - 1)]])
            self.pool[name] = np.concatenate([self.pool[name], cloud])
        old = self.npts
        self.npts += m
        self.alive = np.concatenate([self.alive, np.ones(m, dtype=bool)])
        self.fmemo = {}
        for (rv, s, k) in self.rootvars:
            self._root_pool(rv, s, k)
        for f in self.assume_list + self.pc:
            tt, rr = self._truth(f)
            self.alive[old:] &= (tt & rr)[old:]

    # ------------------------------------------------------------------ model / witness access
    def witness_env(self):
        """A concrete point (Fractions) satisfying assumptions and the path condition, or None."""
        self._ensure_pool()
        for idx in np.nonzero(self.alive)[0][:5]:
            if self._confirm(int(idx), self.assume_list + self.pc):
                return {k: Fr(float(v[int(idx)])) for k, v in self.pool.items() if k in self.vars}
        return None

    def hyps_a(self):
        """Side conditions for form-A queries: recorded denominators non-zero + root definitions."""
        return [d.a != 0 for d in self.dens] + list(self.rootdefs)

    def hyps_b(self):
        return list(self.rootdefs_b)

    # ------------------------------------------------------------------ driver
    def run(self, fn, on_path=None):
        self.stack = [([], [])]
        n = 0
        import time as _time
        t_start = _time.time()
        while self.stack:
            if n >= self.maxpaths or (self.time_budget is not None and n > 0 and _time.time() - t_start > self.time_budget):
                self.stats['bound_hit'] = True
                self.stats['paths_left_on_the_stack'] = len(self.stack)
                break
            prefix, extra = self.stack.pop()
            self._reset(prefix, extra)
            Ctx.cur = self
            try:
                out = fn(self)
            except Infeasible:
                self.stats.setdefault('infeasible_prefixes', 0)
                self.stats['infeasible_prefixes'] += 1
                continue
            except PathAbort:
                continue
            n += 1
            self.stats['paths'] = n
            if on_path is not None:
                on_path(self, out)
        Ctx.cur = None
        return n
