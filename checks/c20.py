"""C20 (part) - integrand helpers equal their mathematical definitions, NumPy and JAX variants agree.

Symbolic: every tensor entry.  Real code: every function of skfem/helpers.py and skfem/autodiff/helpers.py.
The JAX helper *source* is executed with ``jnp`` interpreted by NumPy (einsum/array/zeros_like have the same
documented meaning) in symbolic mode; counterexamples are replayed with real jax.numpy arrays.
"""
import itertools
import sys

import numpy as np

from engine import harness
from engine.harness import Skip


def leibniz(A):
    n = A.shape[0]
    tot = 0
    for perm in itertools.permutations(range(n)):
        sgn = 1
        for i in range(n):
            for j in range(i + 1, n):
                if perm[i] > perm[j]:
                    sgn = -sgn
        term = sgn
        for i in range(n):
            term = term * A[i, perm[i]]
        tot = tot + term
    return tot


def _mods(h, variant):
    import skfem.helpers as nh
    if variant == 'np':
        from skfem.element import DiscreteField
        return nh, (lambda x: x), (lambda x: x), DiscreteField
    import skfem.autodiff.helpers as jh
    from skfem.autodiff import JaxDiscreteField
    if h.sym_mode:
        h.stub('jax.numpy inside skfem/autodiff/helpers.py -> NumPy namesakes (einsum, array, zeros_like)')

        class JNP:
            def __getattr__(self, k):
                return getattr(np, k)
        jh.jnp = JNP()
        return jh, (lambda x: x), (lambda x: x), JaxDiscreteField
    import jax.numpy as jnp
    return jh, (lambda x: jnp.asarray(x)), (lambda x: np.asarray(x)), JaxDiscreteField


def helper_config(h, variant, name, n, trail):
    mod, to, fro, DF = _mods(h, variant)
    T = tuple(trail)
    tix = list(np.ndindex(*T))
    A = h.sym('a', (n, n) + T, nominal=np.arange(1, n * n * int(np.prod(T)) + 1).reshape((n, n) + T) % 7 + 1.0
              + np.eye(n).reshape((n, n) + (1,) * len(T)) * 3)
    B = h.sym('b', (n, n) + T, nominal=(np.arange(n * n * int(np.prod(T))).reshape((n, n) + T) * 3) % 5 - 1.5)
    u = h.sym('u', (n,) + T, nominal=np.arange(n * int(np.prod(T))).reshape((n,) + T) % 3 + 0.5)
    v = h.sym('v', (n,) + T, nominal=np.arange(n * int(np.prod(T))).reshape((n,) + T) % 4 - 1.25)
    w = h.sym('w', (n,) + T, nominal=np.arange(n * int(np.prod(T))).reshape((n,) + T) % 5 - 0.75)
    h.sample(dict(helper=name, variant=variant, shape=[n, n] + list(T)))
    R = range(n)

    if name == 'det':
        d = fro(mod.det(to(A)))
        h.concrete('shape', np.shape(d) == T)
        for t in tix:
            h.zero('det%s' % list(t), d[t] - leibniz(A[(slice(None), slice(None)) + t]))
        if h.sym_mode:
            h.canary('canary-transposed-minor', d[tix[0]] - leibniz(A[(slice(None), slice(None)) + tix[0]]) + A[(0, 1) + tix[0]])
    elif name == 'inv':
        if variant != 'np':
            raise Skip('no JAX inv helper')
        Ai = mod.inv(A)
        for t in tix:
            a = A[(slice(None), slice(None)) + t]
            ai = Ai[(slice(None), slice(None)) + t]
            for i in R:
                for j in R:
                    h.zero('A*inv%s[%d,%d]' % (list(t), i, j), sum(a[i, k] * ai[k, j] for k in R) - (1 if i == j else 0))
                    h.zero('inv*A%s[%d,%d]' % (list(t), i, j), sum(ai[i, k] * a[k, j] for k in R) - (1 if i == j else 0))
    elif name == 'dot':
        r = fro(mod.dot(to(u), to(v)))
        h.equal('dot', r, sum(u[i] * v[i] for i in R))
    elif name == 'ddot':
        r = fro(mod.ddot(to(A), to(B)))
        h.equal('ddot', r, sum(A[i, j] * B[i, j] for i in R for j in R))
    elif name == 'dddot':
        C = np.array([[[u[i] * A[j, k] for k in R] for j in R] for i in R])
        D = np.array([[[B[i, j] * v[k] for k in R] for j in R] for i in R])
        if not h.sym_mode:
            C = C.astype(float)
            D = D.astype(float)
        r = fro(mod.dddot(to(C), to(D)))
        h.equal('dddot', r, sum(C[i, j, k] * D[i, j, k] for i in R for j in R for k in R))
    elif name == 'prod2':
        r = fro(mod.prod(to(u), to(v)))
        h.concrete('shape', np.shape(r) == (n, n) + T)
        for i in R:
            for j in R:
                h.equal('prod[%d,%d]' % (i, j), r[i, j], u[i] * v[j])
    elif name == 'prod3':
        r = fro(mod.prod(to(u), to(v), to(w)))
        h.concrete('shape', np.shape(r) == (n, n, n) + T)
        for i in R:
            for j in R:
                for k in R:
                    h.equal('prod[%d,%d,%d]' % (i, j, k), r[i, j, k], u[i] * v[j] * w[k])
    elif name == 'mul-mv':
        r = fro(mod.mul(to(A), to(u)))
        h.concrete('shape', np.shape(r) == (n,) + T)
        for i in R:
            h.equal('mul[%d]' % i, r[i], sum(A[i, j] * u[j] for j in R))
        if h.sym_mode:
            h.canary('canary-transposed', r[0] - sum(A[j, 0] * u[j] for j in R))
    elif name == 'mul-mm':
        if variant == 'np':
            raise Skip('NumPy mul is documented as matrix-vector only')
        r = fro(mod.mul(to(A), to(B)))
        for i in R:
            for k in R:
                h.equal('mul[%d,%d]' % (i, k), r[i, k], sum(A[i, j] * B[j, k] for j in R))
    elif name == 'trace':
        r = fro(mod.trace(to(A)))
        h.equal('trace', r, sum(A[i, i] for i in R))
    elif name == 'transpose':
        r = fro(mod.transpose(to(A)))
        for i in R:
            for j in R:
                h.equal('T[%d,%d]' % (i, j), r[i, j], A[j, i])
        if h.sym_mode:
            h.canary('canary-identity', r[0, 1] - A[0, 1])
    elif name == 'eye':
        s = u[0]
        r = fro(mod.eye(to(s), n))
        h.concrete('shape', np.shape(r) == (n, n) + T)
        for i in R:
            for j in R:
                h.equal('eye[%d,%d]' % (i, j), r[i, j], s if i == j else 0 * s)
    elif name == 'identity':
        if variant != 'np':
            raise Skip('no JAX identity helper')
        if len(T) != 2:
            raise Skip('identity needs two trailing axes')
        r = mod.identity(A)
        h.concrete('shape', np.shape(r) == (n, n) + T)
        for i in R:
            for j in R:
                h.equal('identity[%d,%d]' % (i, j), r[i, j] + 0 * u[0], np.ones(T) * (1 if i == j else 0) + 0 * u[0])
        r2 = mod.identity(u[0], N=n)
        h.concrete('shapeN', np.shape(r2) == (n, n) + T)
    elif name == 'cross':
        if variant != 'np':
            raise Skip('no JAX cross helper')
        r = mod.cross(u, v)
        if n == 2:
            h.equal('cross', r, u[0] * v[1] - u[1] * v[0])
        else:
            eps = lambda i, j, k: (i - j) * (j - k) * (k - i) // 2
            for i in R:
                h.equal('cross[%d]' % i, r[i], sum(eps(i, j, k) * u[j] * v[k] for j in R for k in R))
    elif name == 'sym_grad':
        f = DF(to(u), grad=to(A)) if variant == 'np' else DF(to(u), grad=to(A))
        r = fro(mod.sym_grad(f))
        half = h.frac(1, 2)
        for i in R:
            for j in R:
                h.equal('sym_grad[%d,%d]' % (i, j), r[i, j], half * (A[i, j] + A[j, i]))
    elif name == 'div':
        f = DF(to(u), grad=to(A))
        r = fro(mod.div(f))
        h.equal('div', r, sum(A[i, i] for i in R))
        if variant == 'np':
            g = DF(u[0], grad=u)      # scalar field: "divergence" of 1-D field falls back to grad[0] only in 1-D
            f2 = DF(to(u), div=to(v[0]))
            h.equal('div-precomputed', mod.div(f2), v[0])
    elif name == 'curl':
        if variant != 'np':
            raise Skip('no JAX curl helper')
        if n == 2:
            f = DF(u[0], grad=u)      # scalar field in 2-D: grad has shape (2,)+T
            r = mod.curl(f)
            h.equal('curl-scalar[0]', r[0], u[1])
            h.equal('curl-scalar[1]', r[1], -u[0])
            f = DF(u, grad=A)         # vector field in 2-D, grad[i, j] = d_j u_i
            h.equal('curl-2d', mod.curl(f), A[1, 0] - A[0, 1])
        else:
            f = DF(u, grad=A)
            r = mod.curl(f)
            eps = lambda i, j, k: (i - j) * (j - k) * (k - i) // 2
            for i in R:
                h.equal('curl[%d]' % i, r[i], sum(eps(i, j, k) * A[k, j] for j in R for k in R))
        f = DF(u, curl=v)
        h.equal('curl-precomputed', mod.curl(f), v)
    elif name == 'inner':
        if variant != 'np':
            raise Skip('no JAX inner helper')
        if len(T) != 2:
            raise Skip('inner dispatches on 2 trailing axes')
        h.equal('inner-scalar', mod.inner(u[0], v[0]), u[0] * v[0])
        h.equal('inner-vector', mod.inner(u, v), sum(u[i] * v[i] for i in R))
        h.equal('inner-matrix', mod.inner(A, B), sum(A[i, j] * B[i, j] for i in R for j in R))
        h.equal('inner-tuple', mod.inner((u[0], v), (v[0], w)), u[0] * v[0] + sum(v[i] * w[i] for i in R))
    else:
        raise ValueError(name)


def agree_config(h, name, n, trail):
    """NumPy variant == JAX variant on the same symbolic input."""
    nh, _, _, DFn = _mods(h, 'np')
    jh, to, fro, DFj = _mods(h, 'jax')
    T = tuple(trail)
    A = h.sym('a', (n, n) + T, nominal=np.arange(1, n * n * int(np.prod(T)) + 1).reshape((n, n) + T) % 7 + 1.0)
    B = h.sym('b', (n, n) + T, nominal=(np.arange(n * n * int(np.prod(T))).reshape((n, n) + T) * 3) % 5 - 1.5)
    u = h.sym('u', (n,) + T, nominal=np.arange(n * int(np.prod(T))).reshape((n,) + T) % 3 + 0.5)
    v = h.sym('v', (n,) + T, nominal=np.arange(n * int(np.prod(T))).reshape((n,) + T) % 4 - 1.25)
    pairs = dict(
        det=lambda m, c: m.det(c(A)), dot=lambda m, c: m.dot(c(u), c(v)), ddot=lambda m, c: m.ddot(c(A), c(B)),
        prod=lambda m, c: m.prod(c(u), c(v)), mul=lambda m, c: m.mul(c(A), c(u)), trace=lambda m, c: m.trace(c(A)),
        transpose=lambda m, c: m.transpose(c(A)), eye=lambda m, c: m.eye(c(u[0]), n),
    )
    a = pairs[name](nh, lambda x: x)
    b = fro(pairs[name](jh, to))
    h.equal('np==jax', np.asarray(a), np.asarray(b))


def nonlinear_config(h, mesh, spec, which, free=None):
    """NonlinearForm at a SYMBOLIC linearisation point: Jacobian == hand-linearised bilinear form, rhs == minus the residual;
    integrands linear in the unknown reduce to ordinary assembly."""
    import warnings
    import skfem as S
    from engine.zoo import make_mesh
    from checks.c09 import make_elem
    with warnings.catch_warnings():
        warnings.simplefilter('ignore')
        m = make_mesh(h, mesh, free=free)
        e = make_elem(spec)
        basis = S.CellBasis(m, e)
        N = int(basis.N)
        dt = object if h.sym_mode else np.float64
        u0 = h.sym('u', (N,), nominal=(np.arange(N) * 3 % 5) * 0.25 - 0.5)
        if h.sym_mode:
            from engine import stubs_jax
            stubs_jax.install(h)
        from skfem.autodiff import NonlinearForm
        import skfem.autodiff.helpers as ah
        import skfem.helpers as nh
        fkw = {}
        extra = lambda p0: dict(p=p0)
        if which == 'cubic':
            nl = lambda u, v, w: (1 + u * u) * ah.dot(ah.grad(u), ah.grad(v)) + u ** 3 * v - w.x[0] * v
            lin = lambda du, v, w: ((1 + w.p * w.p) * nh.dot(nh.grad(du), nh.grad(v)) + 2 * w.p * du * nh.dot(nh.grad(w.p), nh.grad(v))
                                    + 3 * w.p * w.p * du * v)
            res = lambda v, w: (1 + w.p * w.p) * nh.dot(nh.grad(w.p), nh.grad(v)) + w.p ** 3 * v - w.x[0] * v
        elif which == 'linear':
            nl = lambda u, v, w: ah.dot(ah.grad(u), ah.grad(v)) + 2 * u * v.grad[0] - v
            lin = lambda du, v, w: nh.dot(nh.grad(du), nh.grad(v)) + 2 * du * v.grad[0]
            res = lambda v, w: nh.dot(nh.grad(w.p), nh.grad(v)) + 2 * w.p * v.grad[0] - v
        elif which == 'energy':
            # hessian=True: the integrand is an energy density; Jacobian = second variation, rhs = minus the first variation
            fkw = dict(hessian=True)
            nl = lambda u, w: ah.dot(ah.grad(u), ah.grad(u)) / 2 + u ** 4 / 4 + u * u * u.grad[0] - w.x[0] * u
            lin = lambda du, v, w: (nh.dot(nh.grad(du), nh.grad(v)) + 3 * w.p * w.p * du * v
                                    + 2 * du * v * w.p.grad[0] + 2 * w.p * v * du.grad[0] + 2 * w.p * du * v.grad[0])
            res = lambda v, w: (nh.dot(nh.grad(w.p), nh.grad(v)) + w.p ** 3 * v + 2 * w.p * v * w.p.grad[0] + w.p * w.p * v.grad[0] - w.x[0] * v)
        elif which == 'vector':
            nl = lambda u, v, w: ah.ddot(ah.grad(u), ah.grad(v)) + ah.dot(u, u) * ah.dot(u, v) + u[0] * u.grad[1, 0] * v[1] - w.x[0] * v[0]
            lin = lambda du, v, w: (nh.ddot(nh.grad(du), nh.grad(v)) + 2 * nh.dot(w.p, du) * nh.dot(w.p, v) + nh.dot(w.p, w.p) * nh.dot(du, v)
                                    + du[0] * w.p.grad[1, 0] * v[1] + w.p[0] * du.grad[1, 0] * v[1])
            res = lambda v, w: (nh.ddot(nh.grad(w.p), nh.grad(v)) + nh.dot(w.p, w.p) * nh.dot(w.p, v) + w.p[0] * w.p.grad[1, 0] * v[1]
                                - w.x[0] * v[0])
        elif which == 'composite':
            nl = lambda u, q, v, r, w: ah.dot(ah.grad(u), ah.grad(v)) + u * q * v + q * r + u * u * r - w.x[0] * r + (u - q) * v
            lin = lambda du, dq, v, r, w: (nh.dot(nh.grad(du), nh.grad(v)) + (du * w.pq + w.pu * dq) * v + dq * r + 2 * w.pu * du * r + (du - dq) * v)
            res = lambda v, r, w: (nh.dot(nh.grad(w.pu), nh.grad(v)) + w.pu * w.pq * v + w.pq * r + w.pu * w.pu * r - w.x[0] * r + (w.pu - w.pq) * v)
            extra = lambda p0: dict(pu=p0[0], pq=p0[1])
        else:
            raise ValueError(which)
        F = NonlinearForm(nl, dtype=dt, **fkw)
        if h.sym_mode:
            (idx, data, shape, _), (idx1, data1, shape1, _) = F._assemble(basis, x=u0)
            J = np.zeros(tuple(int(x) for x in shape), dtype=object)
            for r, c, d in zip(idx[0], idx[1], data):
                J[r, c] = J[r, c] + d
            rhs = np.zeros(N, dtype=object)
            for r, d in zip(idx1[0], data1):
                rhs[r] = rhs[r] + d
        else:
            Jm, rhs = F.assemble(basis, x=np.asarray(u0, dtype=float))
            J = Jm.toarray()
        p0 = basis.interpolate(u0)
        Bi = S.BilinearForm(lin, dtype=dt)
        Li = S.LinearForm(res, dtype=dt)
        if h.sym_mode:
            (ri, ci), di, shp, _ = Bi._assemble(basis, **extra(p0))
            Jh = np.zeros((N, N), dtype=object)
            for r, c, d in zip(ri, ci, di):
                Jh[r, c] = Jh[r, c] + d
            o = Li._assemble(basis, **extra(p0))
            rh = np.zeros(N, dtype=object)
            for r, d in zip(np.asarray(o[0]).reshape(-1), o[1]):
                rh[r] = rh[r] + d
        else:
            Jh = Bi.assemble(basis, **extra(p0)).toarray()
            rh = Li.assemble(basis, **extra(p0))
        h.sample(dict(mesh=mesh, element=spec, integrand=which, N=N))
        h.equal('Jacobian == hand-linearised bilinear form (rows = test functions)', J, Jh, scale=None if h.sym_mode else max(1.0, float(np.abs(Jh).max())))
        h.equal('right-hand side == minus the residual', np.asarray(rhs), -np.asarray(rh))
        if which == 'linear':
            A = S.BilinearForm(lin, dtype=dt)
            h.concrete('shape', np.shape(J) == (N, N))
        if h.sym_mode and which == 'cubic':
            h.canary('canary: Jacobian without the derivative of the coefficient', J - _drop_term(h, basis, p0, N, nh, S, dt))


def field_ops_config(h, variant):
    """Arithmetic of the field objects integrands are written with (JaxDiscreteField / DiscreteField): every binary operator between
    two fields, a field and an array, a field and a scalar equals the operator applied to the values, for all values."""
    if variant == 'jax':
        from skfem.autodiff import JaxDiscreteField as Fld
    else:
        from skfem.element import DiscreteField as Fld
    a = h.sym('a', (2, 2), nominal=np.array([[1.5, -0.75], [2.25, 0.5]]))
    b = h.sym('b', (2, 2), nominal=np.array([[0.625, 1.25], [-1.5, 2.0]]))
    c = h.sym('c', (), nominal=1.375)
    if h.sym_mode:
        for idx in np.ndindex(2, 2):
            h.assume(a[idx] != 0)
            h.assume(b[idx] != 0)
        h.assume(c != 0)
    A, B = Fld(a), Fld(b)
    h.sample(dict(field_class=Fld.__name__))
    val = lambda r: np.asarray(r.value if isinstance(r, Fld) else r)
    table = [('field - field', lambda: A - B, a - b), ('field + field', lambda: A + B, a + b), ('field * field', lambda: A * B, a * b),
             ('field / field', lambda: A / B, a / b), ('field - array', lambda: A - b, a - b), ('array - field', lambda: b - A, b - a),
             ('field - scalar', lambda: A - c, a - c), ('scalar - field', lambda: c - A, c - a), ('scalar / field', lambda: c / A, c / a),
             ('field / scalar', lambda: A / c, a / c), ('scalar * field', lambda: c * A, c * a), ('field ** 2', lambda: A ** 2, a * a),
             ('array / field', lambda: b / A, b / a), ('field[0]', lambda: A[0], a[0]), ('field[1, 0] - field[0, 1]', lambda: A[1, 0] - B[0, 1], a[1, 0] - b[0, 1])]
    if variant == 'np':
        table += [('-field', lambda: -A, -a)]
    for name, fn, want in table:
        try:
            got = val(fn())
        except TypeError as e:
            if variant == 'jax' and name in ('array - field', 'array / field'):
                continue      # ndarray.__sub__ takes precedence over JaxDiscreteField.__rsub__ (elementwise object result): not an offered form
            raise
        h.equal(name, got, np.asarray(want))


def nonlinear_floatpath_config(h, mesh, spec, scale):
    """The real NonlinearForm.assemble (real JAX, float64) on a mesh scaled by a power of two against the hand-linearised form
    assembled by the ordinary BilinearForm in float64: relative agreement 1e-9 (a concrete comparison; physical scale must not matter)."""
    import warnings
    import skfem as S
    from engine import stubs_misc
    from engine.zoo import topo
    from checks.c09 import make_elem
    with warnings.catch_warnings():
        warnings.simplefilter('ignore')
        cname, p, t = topo(mesh)
        ctx = stubs_misc.plain_numpy() if h.sym_mode else None
        if ctx:
            ctx.__enter__()
        try:
            from skfem.autodiff import NonlinearForm
            import skfem.autodiff.helpers as ah
            import skfem.helpers as nh
            m = getattr(S, cname)(p * float(scale), t)
            basis = S.CellBasis(m, make_elem(spec))
            N = basis.N
            u0 = (np.arange(N) * 3 % 5) * 0.25 - 0.5
            nl = lambda u, v, w: (1 + u * u) * u * v + ah.dot(ah.grad(u), ah.grad(v)) * float(scale) ** 2
            lin = lambda du, v, w: (1 + 3 * w.p * w.p) * du * v + nh.dot(nh.grad(du), nh.grad(v)) * float(scale) ** 2
            J, rhs = NonlinearForm(nl).assemble(basis, x=u0)
            Jh = S.BilinearForm(lin).assemble(basis, p=basis.interpolate(u0)).toarray()
            J = J.toarray()
        finally:
            if ctx:
                ctx.__exit__(None, None, None)
        t_ = h.sym('t', ())
        h.zero('trivial', t_ - t_)
        err = float(np.abs(J - Jh).max() / np.abs(Jh).max())
        h.sample(dict(mesh=mesh, element=spec, scale=float(scale), max_entry=float(np.abs(Jh).max()), relative_error=err))
        h.concrete('Jacobian (real JAX path) == hand-linearised form to 1e-9 relative at this scale', err <= 1e-9, 'relative error %.3e' % err)


def _drop_term(h, basis, p0, N, nh, S, dt):
    B = S.BilinearForm(lambda du, v, w: (1 + w.p * w.p) * nh.dot(nh.grad(du), nh.grad(v)) + 3 * w.p * w.p * du * v, dtype=dt)
    (ri, ci), di, shp, _ = B._assemble(basis, p=p0)
    Jh = np.zeros((N, N), dtype=object)
    for r, c, d in zip(ri, ci, di):
        Jh[r, c] = Jh[r, c] + d
    return Jh


NAMES = ['det', 'inv', 'dot', 'ddot', 'dddot', 'prod2', 'prod3', 'mul-mv', 'mul-mm', 'trace', 'transpose', 'eye',
         'identity', 'cross', 'sym_grad', 'div', 'curl', 'inner']
JAX_NAMES = ['det', 'dot', 'ddot', 'dddot', 'prod2', 'prod3', 'mul-mv', 'mul-mm', 'trace', 'transpose', 'eye', 'sym_grad', 'div']


def build_configs(tier, seed):
    trails = [(1, 1)] if tier == 'quick' else [(1, 1), (2, 3), (2,)]
    cfgs = []
    for n in (2, 3):
        for T in trails:
            for name in NAMES:
                if name in ('mul-mm', ):
                    continue
                if name in ('identity', 'inner', 'div', 'curl') and len(T) != 2:
                    continue          # helpers acting on FIELDS dispatch on the two trailing axes (cells x points) every field carries
                cfgs.append(dict(name='np/%s/n=%d/trail=%s' % (name, n, 'x'.join(map(str, T))), fn=helper_config,
                                 kw=dict(variant='np', name=name, n=n, trail=T)))
            for name in JAX_NAMES:
                if name in ('div',) and len(T) != 2:
                    continue
                cfgs.append(dict(name='jax/%s/n=%d/trail=%s' % (name, n, 'x'.join(map(str, T))), fn=helper_config,
                                 kw=dict(variant='jax', name=name, n=n, trail=T)))
            for name in ('det', 'dot', 'ddot', 'prod', 'mul', 'trace', 'transpose', 'eye'):
                cfgs.append(dict(name='agree/%s/n=%d/trail=%s' % (name, n, 'x'.join(map(str, T))), fn=agree_config,
                                 kw=dict(name=name, n=n, trail=T)))
    # NonlinearForm with a symbolic linearisation point (jax.linearize replaced by a forward-mode stand-in)
    for mesh, spec, free in [('tri2', 'ElementTriP1', [3]), ('line3perm', 'ElementLineP2', None)] + ([] if tier == 'quick' else [('tri2', 'ElementTriP2', [3])]):
        for which in ('cubic', 'linear'):
            cfgs.append(dict(name='nonlinear/%s/%s/%s' % (mesh, spec, which), fn=nonlinear_config, kw=dict(mesh=mesh, spec=spec, which=which, free=free),
                             opts=dict(timeout=900)))
    for mesh, spec, which, free in [('tri2', 'ElementTriP1', 'energy', [3]), ('line3perm', 'ElementLineP2', 'energy', None),
                                    ('tri2', 'ElementVector(ElementTriP1())', 'vector', [3]),
                                    ('tri2', 'ElementComposite(ElementTriP1(),ElementTriP0())', 'composite', [3])]:
        cfgs.append(dict(name='nonlinear/%s/%s/%s' % (mesh, spec, which), fn=nonlinear_config, kw=dict(mesh=mesh, spec=spec, which=which, free=free),
                         opts=dict(timeout=900)))
    for variant in ('jax', 'np'):
        cfgs.append(dict(name='field-ops/%s' % variant, fn=field_ops_config, kw=dict(variant=variant)))
    for scale in (1.0, 2.0 ** -24):
        cfgs.append(dict(name='nonlinear-floatpath/tri2/ElementTriP1/scale=%g' % scale, fn=nonlinear_floatpath_config,
                         kw=dict(mesh='tri2', spec='ElementTriP1', scale=scale), opts=dict(timeout=600)))
    return cfgs


META = dict(
    explanation='Every helper of skfem/helpers.py and skfem/autodiff/helpers.py is executed on tensors whose entries are '
                'symbolic reals; z3 decides equality with the index-sum definition (Leibniz determinant, A inv(A) = I under '
                'det != 0, Levi-Civita cross/curl, ...) for all entry values, and NumPy variant == JAX variant.  NonlinearForm._assemble runs at a SYMBOLIC linearisation point with jax.linearize replaced by a forward-mode stand-in: Jacobian == hand-linearised bilinear form, right-hand side == minus the residual, linear integrands reduce to ordinary assembly.',
    symbolic='all tensor entries',
    bounds=dict(shapes='2x2 and 3x3 tensors, vectors of length 2/3; trailing axes (1,1) [quick] + (2,3), (2,) [thorough]'),
    outside=['JAX own tracing and differentiation (jax.linearize/jvp are replaced by a stand-in honouring their contract)', 
             'float rounding'],
    stubs=[],
    assumptions=['jnp.einsum/array/zeros_like are interpreted by their NumPy namesakes when the JAX helper source runs symbolically; '
                 'replays use real jax.numpy'],
    design_ref='DESIGN.md 4/C20',
)

if __name__ == '__main__':
    sys.exit(harness.main('C20', 'checks.c20', build_configs, META))
