"""C02 - integration is exact for polynomial data on cells and facets.

  (b) assembly == quadrature sum of the pulled-back integrand, for EVERY geometry (symbolic vertices, cells of either orientation):
      Functional(x^alpha) assembled by the real code == sum_K sum_q W_q |det_K| m(F_K(X_q)) with the harness' own map and determinant
      and the table values as exact rationals (table independent identity); facets likewise through |edge|^2 (root-free)
  (c) closed forms: with an exact rational lattice rule of degree n passed through quadrature=, Functional(x^alpha), |alpha| <= n,
      equals the closed-form simplex integral for all geometries; the mass matrix of a partition-of-unity element sums to the measure
  (d) the library's own tables and default order through assembly on numeric geometry: for ALL polynomials of the basis' integration
      order with coefficients in [-1,1], |assembled - closed form| <= 1e-11 (LRA); boundary integrals on mixed affine/non-affine
      quadrilaterals (facet bases go through the Newton inverse)
  (e) invariance under vertex renumbering and under refinement (exact rule)
(a), the tables themselves, is C08.
"""
import itertools
import math
import sys
import warnings
from fractions import Fraction as Fr

import numpy as np

from engine import harness
from engine.sym import Sym, tosym
from engine.symnp import det_obj
from engine.zoo import make_mesh, topo, simplex_det, ref_weights, own_det_at
from checks.c03 import renumbered
from checks.c09 import make_elem


# ---- tiny polynomial algebra over Sym coefficients: {exponent tuple: coefficient} -------------------------------------------------
def p_mul(a, b):
    out = {}
    for ea, ca in a.items():
        for eb, cb in b.items():
            e = tuple(x + y for x, y in zip(ea, eb))
            out[e] = out.get(e, 0) + ca * cb
    return out


def p_pow(a, k, nvars):
    out = {tuple([0] * nvars): 1}
    for _ in range(k):
        out = p_mul(out, a)
    return out


def simplex_monomial_integral(P, cell, alpha):
    """Closed form of int_K x^alpha dx over the simplex with (symbolic) vertices P[:, cell], divided by |det| (so that the
    orientation-dependent factor stays outside): sum over the expansion of x^alpha in reference coordinates of a! b! ../(d + |.|)!"""
    d = P.shape[0]
    # x_i = P[i, v0] + sum_k X_k (P[i, v_k] - P[i, v0])
    polys = []
    for i in range(d):
        pl = {tuple([0] * d): P[i, cell[0]]}
        for k in range(d):
            e = [0] * d
            e[k] = 1
            pl[tuple(e)] = P[i, cell[k + 1]] - P[i, cell[0]]
        polys.append(pl)
    tot = {tuple([0] * d): 1}
    for i in range(d):
        tot = p_mul(tot, p_pow(polys[i], alpha[i], d))
    val = 0
    f = math.factorial
    for e, c in tot.items():
        w = Fr(int(np.prod([f(x) for x in e])), f(sum(e) + d))
        val = val + c * tosym(w)
    return val


def lattice_rule(d, n):
    """Exact rational rule of degree n on the reference simplex: lattice points i/n, weights from the moment equations."""
    n = max(n, 1)
    pts = [e for e in itertools.product(range(n + 1), repeat=d) if sum(e) <= n]
    mons = pts
    f = math.factorial
    A = [[Fr(1) for _ in pts] for _ in mons]
    for r, g in enumerate(mons):
        for c, p_ in enumerate(pts):
            v = Fr(1)
            for k in range(d):
                v *= Fr(p_[k], n) ** g[k]
            A[r][c] = v
    b = [Fr(int(np.prod([f(x) for x in g])), f(sum(g) + d)) for g in mons]
    # Gauss-Jordan
    m = len(pts)
    M = [A[r] + [b[r]] for r in range(m)]
    for c in range(m):
        piv = next(r for r in range(c, m) if M[r][c] != 0)
        M[c], M[piv] = M[piv], M[c]
        pv = M[c][c]
        M[c] = [v / pv for v in M[c]]
        for r in range(m):
            if r != c and M[r][c] != 0:
                fct = M[r][c]
                M[r] = [x - fct * y for x, y in zip(M[r], M[c])]
    W = [M[r][m] for r in range(m)]
    X = [[Fr(p_[k], n) for p_ in pts] for k in range(d)]
    return X, W


def rule_arrays(h, X, W):
    if h.sym_mode:
        Xa = np.array([[Sym(c=v) for v in row] for row in X], dtype=object)
        Wa = np.array([Sym(c=v) for v in W], dtype=object)
    else:
        Xa = np.array([[float(v) for v in row] for row in X])
        Wa = np.array([float(v) for v in W])
    return Xa, Wa


def mono(alpha):
    def f(w):
        out = 1
        for i, a in enumerate(alpha):
            out = out * w.x[i] ** a
        return out
    return f


def exps(d, n):
    return [e for e in itertools.product(range(n + 1), repeat=d) if sum(e) <= n]


def pulled_back_config(h, mesh, elem, degree, pt=None, free=None, cells=None, memopt=False):
    """(b): table-independent identity with the real default rule."""
    import skfem as S
    with warnings.catch_warnings():
        warnings.simplefilter('ignore')
        m = make_mesh(h, mesh, pt=pt, free=free)
        e = make_elem(elem)
        dt = object if h.sym_mode else np.float64
        kw = {} if cells is None else dict(elements=np.array(cells, dtype=np.int32))
        if memopt:
            # the memory-optimised affine mapping restricted to the integrated cells
            import importlib
            MA = importlib.import_module('skfem.mapping.mapping_affine').MappingAffine
            kw['mapping'] = MA(m, tind=np.array(cells, dtype=np.int32))
        b = S.CellBasis(m, e, intorder=degree, **kw)
        P, t = m.doflocs, np.asarray(m.t)
        d = P.shape[0]
        X, W = b.X, b.W
        sel = list(range(t.shape[1])) if cells is None else list(cells)
        h.sample(dict(mesh=mesh, degree=degree, cells=sel, points=int(np.shape(W)[0])))
        simplex = m.refdom.__name__ in ('RefLine', 'RefTri', 'RefTet')
        for alpha in exps(d, min(degree, 3)):
            got = S.Functional(mono(alpha), dtype=dt).assemble(b)
            want = 0
            for K in sel:
                for q in range(np.shape(W)[0]):
                    Xq = [X[k, q] for k in range(d)]
                    lam = ref_weights(m.refdom, Xq)
                    x = [sum(lam[a] * P[i, t[a, K]] for a in range(len(lam))) for i in range(d)]
                    det = simplex_det(P, t[:, K]) if simplex and d > 1 else (P[0, t[1, K]] - P[0, t[0, K]] if d == 1 else own_det_at(m, K, Xq))
                    val = 1
                    for i, a in enumerate(alpha):
                        val = val * x[i] ** a
                    want = want + W[q] * abs(det) * val
            h.zero('x^%s: assembled == sum_q W_q |det| m(F(X_q))' % (alpha,), got - want, scale=1.0)


def closed_form_config(h, mesh, n, pt=None, free=None, cells=None, elem_mass=None):
    """(c): exact rational rule of degree n -> closed-form integrals for all geometries."""
    import skfem as S
    with warnings.catch_warnings():
        warnings.simplefilter('ignore')
        m = make_mesh(h, mesh, pt=pt, free=free)
        P, t = m.doflocs, np.asarray(m.t)
        d = P.shape[0]
        dt = object if h.sym_mode else np.float64
        X, W = rule_arrays(h, *lattice_rule(d, n))
        e = m.elem()
        kw = {} if cells is None else dict(elements=np.array(cells, dtype=np.int32))
        b = S.CellBasis(m, e, quadrature=(X, W), **kw)
        sel = list(range(t.shape[1])) if cells is None else list(cells)
        h.sample(dict(mesh=mesh, rule_degree=n, rule_points=len(W), cells=sel))
        for alpha in exps(d, n):
            got = S.Functional(mono(alpha), dtype=dt).assemble(b)
            want = 0
            for K in sel:
                det = simplex_det(P, t[:, K]) if d > 1 else P[0, t[1, K]] - P[0, t[0, K]]
                want = want + abs(det) * simplex_monomial_integral(P, t[:, K], alpha)
            h.zero('x^%s: assembled == closed-form integral over the selected cells' % (alpha,), got - want)
        if elem_mass:
            em = make_elem(elem_mass)
            Xm, Wm = rule_arrays(h, *lattice_rule(d, max(2 * em.maxdeg, 1)))
            bm = S.CellBasis(m, em, quadrature=(Xm, Wm), **kw)
            (rows, cols), data, shape, _ = S.BilinearForm(lambda u, v, w: u * v, dtype=dt)._assemble(bm) if h.sym_mode else \
                (lambda A: ((None, None), [A.sum()], None, None))(S.BilinearForm(lambda u, v, w: u * v).assemble(bm))
            tot = sum(data) if h.sym_mode else data[0]
            fact = math.factorial(d)
            meas = sum(abs(simplex_det(P, t[:, K]) if d > 1 else P[0, t[1, K]] - P[0, t[0, K]]) for K in sel) / fact
            h.zero('entries of the mass matrix of %s sum to the measure of the integration domain' % elem_mass, tot - meas)


def default_tables_config(h, mesh, order, kind='cell'):
    """(d): the library's own rule of the given order through real assembly on numeric geometry; for all polynomials of that degree
    with coefficients in [-1,1]: |assembled - closed form| <= 1e-11."""
    import skfem as S
    with warnings.catch_warnings():
        warnings.simplefilter('ignore')
        m = make_mesh(h, mesh, free='none')
        P, t = m.doflocs, np.asarray(m.t)
        d = P.shape[0]
        dt = object if h.sym_mode else np.float64
        e = m.elem()
        try:
            b = S.CellBasis(m, e, intorder=order)
        except NotImplementedError:
            h.concrete('order declined', True)
            t_ = h.sym('t', ())
            h.zero('trivial', t_ - t_)
            return
        gs = exps(d, order)
        c = h.sym('c', (len(gs),), nominal=np.ones(len(gs)))
        r = 0
        h.sample(dict(mesh=mesh, order=order, monomials=len(gs)))
        for j, alpha in enumerate(gs):
            got = S.Functional(mono(alpha), dtype=dt).assemble(b)
            want = 0
            for K in range(t.shape[1]):
                det = simplex_det(P, t[:, K]) if d > 1 else P[0, t[1, K]] - P[0, t[0, K]]
                want = want + abs(det) * simplex_monomial_integral(P, t[:, K], alpha)
            err = got - want
            if h.sym_mode:
                h.assume(h.And(c[j] >= -1, c[j] <= 1))
                r = r + c[j] * err
            else:
                r = r + min(1.0, max(-1.0, float(c[j]))) * float(err)
        tol = h.frac(1, 10 ** 11)
        h.valid('all polynomials of degree <= %d: |assembled - exact| <= 1e-11' % order, h.And(r <= tol, r >= -tol), kinds=('default',))


def default_tables_facet_config(h, mesh, order, kind='facet'):
    """(d) on facets: the library's rule of the given order on the FACET reference cell through FacetBasis / InteriorFacetBasis on
    numeric geometry; for all polynomials of that degree with coefficients in [-1,1]: |assembled - closed form| <= 1e-10 (the facet
    measures are square roots: errors are evaluated numerically, the universal statement over the coefficients is decided by the solver)."""
    import math
    import skfem as S
    with warnings.catch_warnings():
        warnings.simplefilter('ignore')
        m = make_mesh(h, mesh, free='none')
        P, t = m.doflocs, np.asarray(m.t)
        Pf = np.array([[to_float(h, P[i, v]) for v in range(P.shape[1])] for i in range(P.shape[0])], dtype=float)
        d = P.shape[0]
        k = d - 1
        dt = object if h.sym_mode else np.float64
        e = m.elem()
        try:
            b = S.FacetBasis(m, e, intorder=order) if kind == 'facet' else S.InteriorFacetBasis(m, e, intorder=order, side=int(kind[-1]))
        except NotImplementedError:
            h.concrete('order declined', True)
            t_ = h.sym('t', ())
            h.zero('trivial', t_ - t_)
            return
        fac = np.asarray(m.facets)[:, np.asarray(b.find)]
        gs = exps(d, order)
        c = h.sym('c', (len(gs),), nominal=np.ones(len(gs)))
        h.sample(dict(mesh=mesh, order=order, basis=kind, facets=[int(f) for f in np.asarray(b.find)], monomials=len(gs)))
        f_ = math.factorial
        r = 0
        worst = 0.0
        for j, alpha in enumerate(gs):
            got = to_float(h, S.Functional(mono(alpha), dtype=dt).assemble(b))
            want = 0.0
            for col in range(fac.shape[1]):
                fv = fac[:, col]
                polys = []
                for i in range(d):
                    pl = {tuple([0] * k): Fr(Pf[i, fv[0]])}
                    for q in range(k):
                        ex_ = [0] * k
                        ex_[q] = 1
                        pl[tuple(ex_)] = Fr(Pf[i, fv[q + 1]]) - Fr(Pf[i, fv[0]])
                    polys.append(pl)
                tot = {tuple([0] * k): Fr(1)}
                for i in range(d):
                    tot = p_mul(tot, p_pow(polys[i], alpha[i], k))
                val = sum(cf * Fr(int(np.prod([f_(x) for x in ex_])) if k else 1, f_(sum(ex_) + k)) for ex_, cf in tot.items())
                if d == 1:
                    J = 1.0
                elif d == 2:
                    J = math.hypot(*(Pf[:, fv[1]] - Pf[:, fv[0]]))
                else:
                    J = float(np.linalg.norm(np.cross(Pf[:, fv[1]] - Pf[:, fv[0]], Pf[:, fv[2]] - Pf[:, fv[0]])))
                want += J * float(val)
            err = got - want
            worst = max(worst, abs(err))
            if h.sym_mode:
                h.assume(h.And(c[j] >= -1, c[j] <= 1))
                r = r + c[j] * tosym(Fr(err))
            else:
                r = r + min(1.0, max(-1.0, float(c[j]))) * err
        h.note('largest single-monomial error %.2e' % worst)
        tol = h.frac(1, 10 ** 10)
        h.valid('all polynomials of degree <= %d on the facets: |assembled - exact| <= 1e-10' % order, h.And(r <= tol, r >= -tol), kinds=('default',))


def default_order_config(h, mesh, spec):
    """The element's DEFAULT integration order integrates its own mass matrix exactly on a straight-sided (for quadrilaterals /
    hexahedra: general, non-parallelogram) cell: raising the order by 4 changes no entry, row-wise for all coefficient vectors in
    [-1,1]^N to 1e-11 of the largest entry (numeric geometry; the universal statement over the coefficients is decided by the solver)."""
    import skfem as S
    with warnings.catch_warnings():
        warnings.simplefilter('ignore')
        m = make_mesh(h, mesh, free='none')
        e = make_elem(spec)
        dt = object if h.sym_mode else np.float64
        b0 = S.CellBasis(m, e)
        b1 = S.CellBasis(m, e, intorder=2 * e.maxdeg + 4)
        N = int(b0.N)
        mass = lambda u, v, w: u * v
        M = []
        for b in (b0, b1):
            (rows, cols), data, shape, _ = S.BilinearForm(mass, dtype=dt)._assemble(b)
            D = np.zeros((N, N))
            for r_, c_, d_ in zip(rows, cols, data):
                D[r_, c_] += to_float(h, d_)
            M.append(D)
        scale = float(np.abs(M[1]).max())
        h.sample(dict(mesh=mesh, element=spec, default_points=int(b0.X.shape[-1]), reference_points=int(b1.X.shape[-1]), N=N,
                      largest_entry_difference=float(np.abs(M[0] - M[1]).max())))
        u = h.sym('u', (N,), nominal=np.ones(N))
        if h.sym_mode:
            for i in range(N):
                h.assume(h.And(u[i] >= -1, u[i] <= 1))
        tol = 1e-11 * scale
        for i in range(N):
            if h.sym_mode:
                r = sum(tosym(Fr(float(M[0][i, j] - M[1][i, j]))) * u[j] for j in range(N))
                h.valid('row %d: |(M_default - M_higher) u| <= 1e-11 max|M|' % i, h.And(r <= tosym(Fr(tol)), r >= -tosym(Fr(tol))), kinds=('default',))
            else:
                r = sum(float(M[0][i, j] - M[1][i, j]) * min(1.0, max(-1.0, float(u[j]))) for j in range(N))
                h.valid('row %d: |(M_default - M_higher) u| <= 1e-11 max|M|' % i, abs(r) <= tol)


def to_float(h, v):
    """Numeric value of a term that is constant up to root atoms of constants (numeric geometry)."""
    if not h.sym_mode:
        return float(v)
    from engine import zeval
    v = tosym(v)
    if v.c is not None:
        return float(v.c)
    env = {}
    for (rv, s_, k_) in h.ex.rootvars:
        env[rv.decl().name()] = np.array([abs(float(np.asarray(zeval.eval_float(s_.a, env)).ravel()[0])) ** (1.0 / k_)])
    return float(np.asarray(zeval.eval_float(v.a, env)).ravel()[0])


def quad_boundary_config(h, mesh):
    """(d): boundary integrals on quadrilateral meshes mixing an exactly affine cell with a trapezoid (numeric geometry):
    sum over boundary facets of the P1 facet load == |edge| / 2 per end vertex, and int x.n ds == 2 |Omega|."""
    import skfem as S
    from skfem.helpers import dot
    with warnings.catch_warnings():
        warnings.simplefilter('ignore')
        m = make_mesh(h, mesh, free='none')
        dt = object if h.sym_mode else np.float64
        fb = S.FacetBasis(m, S.ElementQuad1())
        P, t = m.doflocs, np.asarray(m.t)
        t_ = h.sym('t', ())
        h.zero('trivial', t_ - t_)
        area2 = 0
        for K in range(t.shape[1]):
            for i in range(4):
                a, b_ = t[i, K], t[(i + 1) % 4, K]
                area2 = area2 + P[0, a] * P[1, b_] - P[0, b_] * P[1, a]
        val = S.Functional(lambda w: dot(w.x, w.n), dtype=dt).assemble(fb)
        # signed shoelace sum is twice the area; orientation of the cells decides the sign
        # numeric geometry with irrational edge lengths: the terms are constants up to root atoms; they are evaluated numerically
        # (concrete side conditions, tolerance 1e-9) - the Newton inverse behind FacetBasis is only accurate to 1e-12 anyway
        vf, af = to_float(h, val), to_float(h, area2)
        h.concrete('boundary integral of x.n == 2 |Omega|', abs(abs(vf) - abs(af)) <= 1e-9 * max(1.0, abs(af)), '%.12g vs %.12g' % (vf, af))
        # P1 facet load vector: int phi_i ds == half the length of the boundary edges at vertex i (squared, root-free)
        if h.sym_mode:
            (rows,), data, _, _ = (lambda o: ((np.asarray(o[0]).reshape(-1),), o[1], o[2], o[3]))(S.LinearForm(lambda v, w: v, dtype=dt)._assemble(fb))
            load = np.zeros(fb.N, dtype=object)
            for r_, d_ in zip(rows, data):
                load[r_] = load[r_] + d_
        else:
            load = S.LinearForm(lambda v, w: v).assemble(fb)
        fac = np.asarray(m.facets)
        bf = np.asarray(m.boundary_facets())
        for v in range(fb.N):
            ends = [f for f in bf if v in fac[:, f]]
            if len(ends) != 2:
                continue
            l2 = [sum((P[i, fac[0, f]] - P[i, fac[1, f]]) ** 2 for i in range(2)) for f in ends]
            # load = (l_a + l_b)/2  <=>  (4 load^2 - l_a^2 - l_b^2)^2 == 4 l_a^2 l_b^2  (with load > 0)
            L = to_float(h, load[v])
            want = 0.5 * (np.sqrt(to_float(h, l2[0])) + np.sqrt(to_float(h, l2[1])))
            h.concrete('facet load at vertex %d == half the adjacent boundary edge lengths' % v, abs(L - want) <= 1e-9, '%.12g vs %.12g' % (L, want))


def invariance_config(h, mesh, n, perm=None, refine=False):
    """(e): the assembled functional does not depend on vertex numbering / on refining the mesh (exact rule of degree n)."""
    import skfem as S
    with warnings.catch_warnings():
        warnings.simplefilter('ignore')
        m = make_mesh(h, mesh)
        d = m.p.shape[0]
        dt = object if h.sym_mode else np.float64
        X, W = rule_arrays(h, *lattice_rule(d, n))
        P, t = m.doflocs, np.asarray(m.t)
        if perm is not None:
            perm = np.asarray(perm)
            P2 = np.empty_like(P)
            P2[:, perm] = P
            m2 = type(m)(P2, perm[t])
        else:
            m2 = m.refined(1)
        b1 = S.CellBasis(m, m.elem(), quadrature=(X, W))
        b2 = S.CellBasis(m2, m2.elem(), quadrature=(X, W))
        h.sample(dict(mesh=mesh, degree=n, renumbering=None if perm is None else list(map(int, perm)), refined=refine))
        for alpha in exps(d, n):
            h.zero('x^%s: same value on the %s mesh' % (alpha, 'refined' if perm is None else 'renumbered'),
                   S.Functional(mono(alpha), dtype=dt).assemble(b1) - S.Functional(mono(alpha), dtype=dt).assemble(b2))
def rigid_config(h, mesh, spec, n):
    """(e): mass and stiffness entries (exact rule of degree n) are invariant under a rigid motion x -> R x + d of the mesh, with R a
    rotation given by (c, s), c^2 + s^2 == 1 (hypothesis), d symbolic."""
    import skfem as S
    from skfem.models.poisson import laplace, mass
    with warnings.catch_warnings():
        warnings.simplefilter('ignore')
        m = make_mesh(h, mesh)
        P, t = m.doflocs, np.asarray(m.t)
        c = h.sym('rc', (), nominal=0.6)
        s_ = h.sym('rs', (), nominal=0.8)
        d = h.sym('rd', (2,), nominal=np.array([0.375, -0.625]))
        hyp = [h.eq(c * c + s_ * s_, 1)]
        P2 = np.array([[c * P[0, v] - s_ * P[1, v] + d[0] for v in range(P.shape[1])],
                       [s_ * P[0, v] + c * P[1, v] + d[1] for v in range(P.shape[1])]], dtype=object if h.sym_mode else float)
        m2 = type(m)(P2, t)
        e = make_elem(spec)
        dt = object if h.sym_mode else np.float64
        X, W = rule_arrays(h, *lattice_rule(2, n))
        b1, b2 = S.CellBasis(m, e, quadrature=(X, W)), S.CellBasis(m2, make_elem(spec), quadrature=(X, W))
        h.sample(dict(mesh=mesh, element=spec, rule_degree=n))
        for name, form in (('mass', mass.form), ('stiffness', laplace.form)):
            if h.sym_mode:
                (r1, c1), d1, _, _ = S.BilinearForm(form, dtype=dt)._assemble(b1)
                (r2, c2), d2, _, _ = S.BilinearForm(form, dtype=dt)._assemble(b2)
                h.concrete('%s: same triplet indices' % name, np.array_equal(r1, r2) and np.array_equal(c1, c2))
                for k in range(0, len(d1), max(1, len(d1) // 24)):
                    h.zero('%s entry %d is invariant under the rigid motion' % (name, k), d1[k] - d2[k], hyps=hyp)
            else:
                A1 = S.BilinearForm(form).assemble(b1).toarray()
                A2 = S.BilinearForm(form).assemble(b2).toarray()
                if abs(float(c) ** 2 + float(s_) ** 2 - 1) < 1e-9:
                    h.zero('%s entry is invariant under the rigid motion' % name, A1 - A2, scale=max(1.0, np.abs(A1).max()))


def build_configs(tier, seed):
    quick = tier == 'quick'
    cfgs = []

    def add(name, fn, **kw):
        opts = dict(timeout=kw.pop('timeout', 500 if quick else 2400))
        cfgs.append(dict(name=name, fn=fn, kw=kw, opts=opts))
    # (b)
    for deg in ((2, 4) if quick else (1, 2, 3, 4, 6)):
        add('pulled-back/tri2/deg=%d' % deg, pulled_back_config, mesh='tri2', elem='ElementTriP1', degree=deg)
        add('pulled-back/tri2perm/deg=%d/cells=1' % deg, pulled_back_config, mesh='tri2perm', elem='ElementTriP1', degree=deg, cells=[1])
    add('pulled-back/tri3fan/deg=2/cells=2,0/subset-mapping', pulled_back_config, mesh='tri3fan', elem='ElementTriP1', degree=2, cells=[2, 0], memopt=True)
    add('pulled-back/line3perm/deg=3', pulled_back_config, mesh='line3perm', elem='ElementLineP1', degree=3)
    add('pulled-back/tet2/deg=2/free=4', pulled_back_config, mesh='tet2', elem='ElementTetP1', degree=2, free=[4], timeout=900)
    add('pulled-back/quad2/deg=2/free=2', pulled_back_config, mesh='quad2', elem='ElementQuad1', degree=2, free=[2], timeout=900)
    # (c)
    for n in ((2, 3) if quick else (1, 2, 3, 4)):
        add('closed-form/tri2/n=%d' % n, closed_form_config, mesh='tri2', n=n, elem_mass='ElementTriP%d' % min(n, 2))
        add('closed-form/tri3fan/n=%d/cells=0,2' % n, closed_form_config, mesh='tri3fan', n=n, cells=[0, 2], free=[1, 4])
    add('closed-form/line3perm/n=4', closed_form_config, mesh='line3perm', n=4, elem_mass='ElementLineP2')
    add('closed-form/tet2/n=2/free=4', closed_form_config, mesh='tet2', n=2, free=[4], elem_mass='ElementTetP1', timeout=900)
    # (d)
    for order in (range(2, 11) if quick else range(0, 14)):
        add('default-tables/tri2/order=%d' % order, default_tables_config, mesh='tri2', order=order)
    for order in (range(2, 6) if quick else range(1, 10)):
        add('default-tables/tet2/order=%d' % order, default_tables_config, mesh='tet2', order=order, timeout=900)
    # facet rules through FacetBasis / InteriorFacetBasis (triangle tables on tetrahedral facets incl. the ones with negative weights)
    for order in (range(1, 9) if quick else range(1, 11)):
        cfgs.append(dict(name='default-tables/tet2/facet/order=%d' % order, fn=default_tables_facet_config, kw=dict(mesh='tet2', order=order), opts=dict(timeout=900)))
    for order in (3, 7):
        cfgs.append(dict(name='default-tables/tet2/ifacet-1/order=%d' % order, fn=default_tables_facet_config, kw=dict(mesh='tet2', order=order, kind='ifacet-1'),
                         opts=dict(timeout=900)))
    for order in (2, 5):
        cfgs.append(dict(name='default-tables/tri2/facet/order=%d' % order, fn=default_tables_facet_config, kw=dict(mesh='tri2', order=order), opts=dict(timeout=900)))
    cfgs.append(dict(name='default-tables/line3perm/facet/order=2', fn=default_tables_facet_config, kw=dict(mesh='line3perm', order=2), opts=dict(timeout=900)))
    for order in (3, 6) if quick else (1, 3, 6, 9):
        add('default-tables/line3perm/order=%d' % order, default_tables_config, mesh='line3perm', order=order)
    # the default order of every Lagrange class suffices for its own mass matrix (general quadrilaterals / hexahedra / prisms included)
    for mesh, spec in [('quad2', 'ElementQuad1'), ('quad2', 'ElementQuad2'), ('quad2', 'ElementQuadS2'), ('hex1', 'ElementHex1'), ('hex1', 'ElementHexS2'),
                       ('wedge1', 'ElementWedge1'), ('tri2', 'ElementTriP1'), ('tri2', 'ElementTriP2'), ('tri2', 'ElementTriP3'), ('tri2', 'ElementTriP4'),
                       ('tri2', 'ElementTriMini'), ('tet2', 'ElementTetP1'), ('tet2', 'ElementTetP2'),
                       ('line3perm', 'ElementLineP1'), ('line3perm', 'ElementLineP2'), ('line3perm', 'ElementLineMini'), ('quad2', 'ElementQuad0'),
                       ('hex1', 'ElementHex0')] + ([] if quick else [('hex1', 'ElementHex2'), ('tri2', 'ElementTriCCR')]):
        cfgs.append(dict(name='default-order/%s/%s' % (mesh, spec), fn=default_order_config, kw=dict(mesh=mesh, spec=spec), opts=dict(timeout=900)))
    add('quad-boundary/quad2mix', quad_boundary_config, mesh='quad2mix')
    add('quad-boundary/quad2', quad_boundary_config, mesh='quad2')
    # (e)
    add('invariance/tri2/renumbered', invariance_config, mesh='tri2', n=2, perm=(2, 0, 3, 1))
    add('invariance/tri2/refined', invariance_config, mesh='tri2', n=2, refine=True)
    add('invariance/line3perm/refined', invariance_config, mesh='line3perm', n=3, refine=True)
    add('rigid/tri1/ElementTriP1', rigid_config, mesh='tri1', spec='ElementTriP1', n=2, timeout=900)
    if not quick:
        add('rigid/tri2/ElementTriP2', rigid_config, mesh='tri2', spec='ElementTriP2', n=4, timeout=3000)
    if not quick:
        for perm in itertools.permutations(range(4)):
            add('invariance/tri2/perm=%s' % ''.join(map(str, perm)), invariance_config, mesh='tri2', n=2, perm=perm)
    return cfgs


META = dict(
    explanation='(b) Functional(x^alpha) assembled by the real code on meshes with symbolic vertices equals the quadrature sum of the pulled-back '
                'monomial computed with the harness\' own map/determinant and the table values as exact rationals - an identity in the geometry; '
                '(c) with an exact rational lattice rule passed through quadrature= it equals the closed-form simplex integral for all geometries, '
                'and the mass matrix of a partition-of-unity element sums to the measure; (d) the library\'s tables of every order through real '
                'assembly on numeric geometry: |assembled - exact| <= 1e-11 for ALL polynomials of that degree (LRA over symbolic coefficients); '
                'boundary integrals on mixed affine/non-affine quadrilaterals; (e) invariance under renumbering and refinement.',
    symbolic='vertex coordinates; polynomial coefficients',
    bounds=dict(meshes='2-3 cell simplex meshes (tets/quads one free vertex), either orientation, cell subsets', degree='<= 4 (thorough 6) for the '
                       'identities; default tables: triangle orders 2..10 (thorough 0..13), tetrahedron 2..5 (1..9), segment'),
    outside=['curved cells', 'hexahedra', 'Lagrange stiffness/load entries against rational values (only the mass sum)',
             'float rounding'],
    stubs=[],
    assumptions=['mesh validity'],
    design_ref='DESIGN.md 4/C02',
)

if __name__ == '__main__':
    sys.exit(harness.main('C02', 'checks.c02', build_configs, META))
